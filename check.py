#!/venv/bin/python
"""./check <ID> [--tier quick|thorough] [--replay FILE] [--runs N]"""
import os
import sys
import json
import argparse
import warnings

VERIF = os.path.dirname(os.path.abspath(__file__))


def main():
    ap = argparse.ArgumentParser()
    ap.add_argument('prop')
    ap.add_argument('--tier', default=os.environ.get('VERIF_TIER', 'quick'))
    ap.add_argument('--replay')
    ap.add_argument('--raw', action='store_true')
    ap.add_argument('--runs', type=int)
    ap.add_argument('--workers', type=int,
                    default=int(os.environ.get('VERIF_WORKERS', '0')) or
                    (os.cpu_count() or 4))
    ap.add_argument('--seed', type=int,
                    default=int(os.environ.get('VERIF_SEED', '20260926')))
    ap.add_argument('--no-evidence', action='store_true')
    ap.add_argument('--trace', action='store_true')
    a = ap.parse_args()
    if os.environ.get('PYTHONHASHSEED') is None:
        # re-exec with a fixed hash seed: replay must not depend on it
        env = dict(os.environ)
        env['PYTHONHASHSEED'] = '0'
        os.execve(sys.executable, [sys.executable, '-W', 'ignore'] + sys.argv,
                  env)
    warnings.filterwarnings('ignore')
    sys.path.insert(0, VERIF)
    try:
        # a garbage length taken for a frame size must end in a MemoryError
        # inside the code under test (in workers, while shrinking and in a
        # replay alike), not in the machine running out of memory
        import resource
        lim = int(os.environ.get('VERIF_WORKER_AS_LIMIT', 3 << 30))
        resource.setrlimit(resource.RLIMIT_AS, (lim, lim))
    except Exception:
        pass
    from sim import seams
    from sim.sched import HarnessError
    try:
        seams.import_minecraft()
    except Exception as e:
        print('HARNESS-ERROR cannot import pyCraft: %r' % (e,))
        return 2
    from props import load
    from sim import runner
    prop = load(a.prop)
    tier = a.tier if a.tier in ('quick', 'thorough') else 'quick'
    if a.replay:
        rp = json.load(open(a.replay))
        if a.trace:
            rp['scenario']['trace'] = True
        try:
            res = runner.replay_case(prop, rp['scenario'], rp['tape'])
        except HarnessError as e:
            print('HARNESS-ERROR %s' % e)
            return 2
        sigs = []
        for sig, detail in res.violations:
            if sig not in sigs:
                sigs.append(sig)
            if a.raw:
                print('SIG %s' % sig)
        if a.raw:
            print('DIGEST %x' % res.digest)
            return 1 if sigs else 0
        if rp['signature'] in sigs:
            print('VIOLATION property=%s replay=%s signature=%s'
                  % (prop.ID, os.path.abspath(a.replay), rp['signature']))
            for sig, detail in res.violations:
                print('  %s: %s' % (sig, json.dumps(detail, default=repr)[:400]))
            return 1
        print('replay did not reproduce %s (got %r)' % (rp['signature'], sigs))
        return 0
    try:
        return runner.run_check(prop, tier, a.seed, a.workers, total=a.runs,
                                write_evidence=not a.no_evidence)
    except HarnessError as e:
        print('HARNESS-ERROR %s' % e)
        return 2


if __name__ == '__main__':
    sys.exit(main())

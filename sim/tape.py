"""Choice tape: every nondeterministic decision of a run is one choose(n).

Option 0 is always the boring one (keep running, full read, no delay).  In
generation mode values are drawn from the run's PRNG according to a policy;
in replay mode they come from a sparse {position: value} map and everything
not listed is 0.  The tape that was actually used is recorded sparsely so a
run can be replayed and shrunk (zero entries, lower values).
"""
import random


class Policy(object):
    """Per-kind probability of leaving the boring option."""

    def __init__(self, p_sched=0.0, p_event=0.0, p_io=0.0, p_short=0.0,
                 p_seg=0.0, name='custom', burst=0, pct_depth=0,
                 pct_len=2000):
        self.p = {'sched': p_sched, 'event': p_event, 'io': p_io,
                  'short': p_short, 'seg': p_seg}
        self.name = name
        self.burst = burst
        # PCT-style scheduling (Burckhardt et al.): random thread priorities,
        # always run the highest-priority runnable thread, and at d-1 random
        # change points demote the running thread below everybody else
        self.pct_depth = pct_depth
        self.pct_len = pct_len
        self.prio = {}
        self.change_points = None
        self.low = 0

    def pct_pick(self, cands, pos, rng):
        if self.change_points is None:
            self.change_points = set(rng.randrange(self.pct_len)
                                     for _ in range(self.pct_depth - 1))
        for t in cands:
            if t not in self.prio:
                self.prio[t] = rng.random() + 1.0
        best = max(range(len(cands)), key=lambda i: self.prio[cands[i]])
        if pos in self.change_points:
            self.low -= 1
            self.prio[cands[best]] = self.low
            best = max(range(len(cands)), key=lambda i: self.prio[cands[i]])
        return best

    def describe(self):
        d = dict(self.p)
        d['name'] = self.name
        return d


class Tape(object):
    def __init__(self, rng=None, policy=None, replay=None):
        self.rng = rng
        self.policy = policy
        self.replay = None if replay is None else \
            {int(k): int(v) for k, v in replay}
        self.pos = 0
        self.used = []          # sparse [(pos, value)] of non-zero choices
        self.counts = {}        # kind -> non-zero choices taken

    def choose(self, n, kind, cands=None):
        """Return an int in [0, n).  n <= 1 is not a choice and not recorded.
        cands (thread ids, for kind 'sched') lets a priority policy decide."""
        if n <= 1:
            return 0
        pos = self.pos
        self.pos = pos + 1
        if self.replay is not None:
            v = self.replay.get(pos, 0)
            if v >= n:
                v = v % n
        elif cands is not None and self.policy.pct_depth:
            v = self.policy.pct_pick(cands, pos, self.rng)
        else:
            p = self.policy.p.get(kind, 0.0)
            if p and self.rng.random() < p:
                v = 1 + self.rng.randrange(n - 1) if n > 2 else 1
            else:
                v = 0
        if v:
            self.used.append((pos, v))
            self.counts[kind] = self.counts.get(kind, 0) + 1
        return v

    def sparse(self):
        return [[p, v] for p, v in self.used]


def make_rng(*parts):
    """Deterministic PRNG from a tuple of ints/strings (no hash())."""
    import hashlib
    h = hashlib.sha256(repr(parts).encode()).digest()
    return random.Random(int.from_bytes(h[:16], 'big'))

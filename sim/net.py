"""Simulated blocking TCP as seen by pyCraft: socket / select / timeit stubs.

Bytes are FIFO per direction.  What varies (tape-chosen) is when segments
become readable and how readable bytes are cut into read() results.
"""
import errno

from .sched import SimAbort, HarnessError

AF_INET, AF_INET6, SOCK_STREAM, SHUT_RDWR = 2, 10, 1, 2
MARKER_ADDR = ('203.0.113.1', 25565)       # TEST-NET-3, never routable


class Net(object):
    """Transport state of one run: connections, fd table, fault plan."""

    def __init__(self, sim, server, cfg=None):
        self.sim = sim
        self.server = server
        cfg = cfg or {}
        self.latency = cfg.get('latency_us', 200)
        self.segment = cfg.get('segment', False)      # tape-cut s2c segments
        self.short_read = cfg.get('short_read', False)
        self.one_byte_reads = cfg.get('one_byte_reads', False)
        self.cut_plan = cfg.get('cut_plan')           # {conn: [offsets]}
        self.cut_pause = cfg.get('cut_pause_us', 1000000)
        self.send_error = cfg.get('send_error', False)
        self.refuse = set(cfg.get('refuse', ()))      # conn attempt indices
        self.max_seg = cfg.get('max_seg', 64)
        self.eof_read_limit = cfg.get('eof_read_limit')  # spin detector
        self.eagain_sends = set(cfg.get('eagain_sends', ()))  # send indices
        # send index -> how long that send() blocks (peer reads slowly)
        self.send_stalls = {int(k): int(v) for k, v in
                            (cfg.get('send_stalls') or {}).items()}
        self.sends_seen = 0
        self.conns = []            # accepted TcpConn, in order
        self.attempts = 0          # connect() calls so far
        self.fds = {}
        # where this process's descriptor numbers start (a process that
        # already holds a thousand files hands out numbers select() rejects)
        self.next_fd = int(cfg.get('fd_base', 100))
        self.real_socket_used = False

    def new_fd(self, sock):
        fd = self.next_fd
        self.next_fd += 1
        self.fds[fd] = sock
        return fd


class TcpConn(object):
    """One accepted TCP connection; holds both directions."""

    def __init__(self, net, index, attempt):
        self.net = net
        self.sim = net.sim
        self.index = index
        self.attempt = attempt
        # client -> server
        self.c2s_log = []          # (seq, bytes) as sent by client
        self.c2s_bytes = bytearray()   # everything the server has received
        self.c2s_sent = 0          # bytes accepted from the client
        self.c2s_fin_sent = None   # seq at which client FIN was queued
        self.c2s_fin_seen = None   # seq at which server saw FIN
        # server -> client
        self.s2c_sent = 0          # bytes queued by server
        self.s2c_avail = bytearray()   # readable now
        self.s2c_delivered = 0     # bytes made readable so far
        self.s2c_consumed = 0      # bytes returned by read()
        self.s2c_eof = False       # FIN delivered to client
        self.s2c_rst = False
        self.rst_err = False
        self.first_send_fail_seq = None   # history seq of the first failed send
        self.s2c_fin_queued = False
        self._last_arrival = 0
        self.server_closed = False
        # client side local state
        self.local_shutdown = False      # read side shut down locally
        self.local_wr_shutdown = False   # write side shut down locally
        self.client_released = False
        self.eof_reads = 0         # reads/selects answered after EOF
        self.sends_after_peer_close = 0
        self.app = None            # server-side per-connection state

    # ---- server side API (called from events only)
    def server_send(self, data):
        if self.server_closed or not data:
            return
        data = bytes(data)
        net, sim = self.net, self.sim
        start = self.s2c_sent
        self.s2c_sent += len(data)
        pieces = []
        cuts = ()
        if net.cut_plan and str(self.index) in net.cut_plan:
            cuts = [c - start for c in net.cut_plan[str(self.index)]
                    if start < c < start + len(data)]
        pos = 0
        for c in cuts:
            pieces.append((data[pos:c], True))
            pos = c
        rest = data[pos:]
        if net.segment and len(rest) > 1:
            # tape-chosen segmentation
            while rest:
                if len(rest) > 1 and sim.tape.choose(2, 'seg'):
                    k = 1 + sim.tape.choose(min(len(rest), net.max_seg),
                                            'seg')
                    k = min(k, len(rest))
                    sim.stat('fault.segment')
                else:
                    k = len(rest)
                pieces.append((rest[:k], False))
                rest = rest[k:]
        elif rest:
            pieces.append((rest, False))
        t = max(self._last_arrival, sim.now + net.latency)
        first = True
        for piece, pause_after in pieces:
            if not first and net.segment:
                t += sim.tape.choose(4, 'seg') * 300
            first = False
            self._schedule_arrival(t, piece)
            if pause_after:
                sim.stat('fault.cut-pause')
                t += net.cut_pause
        self._last_arrival = t

    def _schedule_arrival(self, t, piece):
        pend = getattr(self, '_pending_arrival', None)
        if pend is not None and not pend['fired'] and pend['t'] == t and \
                not self.net.segment:
            # back-to-back sends share a segment (unless the tape is
            # splitting the stream anyway)
            pend['buf'] += piece
            return
        pend = {'t': t, 'buf': bytearray(piece), 'fired': False}
        self._pending_arrival = pend

        def arrive():
            pend['fired'] = True
            if self.client_released:
                return
            self.s2c_avail += pend['buf']
            self.s2c_delivered += len(pend['buf'])
            self.sim.dirty = True
        self.sim.at(t, arrive, 's2c[%d]' % self.index)

    def server_close(self):
        """FIN after everything queued so far."""
        if self.server_closed:
            return
        self.server_closed = True
        self.s2c_fin_queued = True
        t = max(self._last_arrival, self.sim.now + self.net.latency)
        self._last_arrival = t

        def fin():
            self.s2c_eof = True
            self.sim.dirty = True
            self.sim.log('fin-at-client', self.index)
        self.sim.at(t, fin, 'fin[%d]' % self.index)

    def server_rst(self):
        if self.server_closed:
            return
        self.server_closed = True
        t = max(self._last_arrival, self.sim.now + self.net.latency)
        self._last_arrival = t

        def rst():
            # as on Linux: what arrived before the reset stays readable; the
            # error is reported once (to the next send, or to the first read
            # that finds the buffer empty), after that reads see
            # end-of-stream and sends a broken pipe
            self.s2c_rst = True
            self.rst_err = True
            self.sim.dirty = True
            self.sim.log('rst-at-client', self.index)
        self.sim.at(t, rst, 'rst[%d]' % self.index)

    # ---- client side helpers
    def readable(self):
        return bool(self.s2c_avail) or self.s2c_eof or self.s2c_rst \
            or self.local_shutdown

    def client_send(self, data):
        seq = self.sim.log('send', (self.index, len(data)))
        self.c2s_log.append((seq, bytes(data)))
        self.c2s_sent += len(data)
        data = bytes(data)

        def deliver():
            self.c2s_bytes += data
            self.net.server.on_data(self, data)
        self.sim.after(self.net.latency, deliver,
                       'c2s[%d]+%d' % (self.index, len(data)))

    def client_fin(self):
        if self.c2s_fin_sent is not None:
            return
        self.c2s_fin_sent = self.sim.log('client-fin', self.index)

        def deliver():
            self.c2s_fin_seen = self.sim.log('fin-at-server', self.index)
            self.net.server.on_fin(self)
        self.sim.after(self.net.latency, deliver, 'c2s-fin[%d]' % self.index)


class SimSocket(object):
    def __init__(self, net, family, type_, proto):
        self.net = net
        self.sim = net.sim
        self.conn = None
        self.closed = False          # fd really released
        self._closed = False         # close() called (CPython defers the
        self._io_refs = 0            # real close while makefile()s exist)
        self.fd = net.new_fd(self)
        self.connect_failed = False
        self.timeout = None
        self.family, self.type, self.proto = family, type_, proto
        self.sim.log('socket', self.fd)

    # -- helpers
    def _maybe_release(self):
        if self._closed and self._io_refs <= 0 and not self.closed:
            self.closed = True
            self.net.fds.pop(self.fd, None)
            if self.conn is not None and not self.conn.client_released:
                self.conn.client_released = True
                self.conn.client_fin()
            self.sim.dirty = True

    # -- socket API used by pyCraft
    def connect(self, addr):
        sim, net = self.sim, self.net
        sim.yield_point(11)
        if self.closed:
            raise OSError(errno.EBADF, 'Bad file descriptor')
        attempt = net.attempts
        net.attempts += 1
        if attempt in net.refuse:
            sim.stat('fault.refuse')
            sim.log('connect-refused', attempt)
            self.connect_failed = True
            raise ConnectionRefusedError(errno.ECONNREFUSED,
                                         'Connection refused')
        conn = TcpConn(net, len(net.conns), attempt)
        net.conns.append(conn)
        self.conn = conn
        sim.log('connect', (conn.index, addr))
        sim.after(0, lambda: net.server.on_accept(conn),
                  'accept[%d]' % conn.index)

    def makefile(self, mode='r', buffering=None, **kw):
        if mode not in ('rb', 'br') or kw:
            self.sim.unsupported('makefile%r' % ((mode, buffering, kw),))
        if self._closed:
            raise OSError(errno.EBADF, 'Bad file descriptor')
        self._io_refs += 1
        raw = SimSocketIO(self)
        if buffering == 0:
            return raw
        import io
        size = io.DEFAULT_BUFFER_SIZE if buffering in (None, -1) \
            else buffering
        return io.BufferedReader(_RawAdapter(raw), size)

    def fileno(self):
        return -1 if self.closed else self.fd

    def send(self, data):
        sim = self.sim
        sim.yield_point(12)
        me = sim.current
        me.io_ops += 1
        if self.closed:
            raise OSError(errno.EBADF, 'Bad file descriptor')
        conn = self.conn
        if conn is None:
            raise BrokenPipeError(errno.EPIPE, 'Broken pipe')
        if conn.local_shutdown or conn.local_wr_shutdown:
            raise BrokenPipeError(errno.EPIPE, 'Broken pipe')
        if conn.s2c_rst:
            if conn.first_send_fail_seq is None:
                conn.first_send_fail_seq = sim.seq
            if conn.rst_err:
                conn.rst_err = False
                sim.log('send-rst', conn.index)
                raise ConnectionResetError(errno.ECONNRESET,
                                           'Connection reset by peer')
            raise BrokenPipeError(errno.EPIPE, 'Broken pipe')
        if self.net.eagain_sends and self.net.sends_seen in \
                self.net.eagain_sends:
            # a non-blocking socket whose send buffer is momentarily full
            # (only used where the harness owns the socket)
            self.net.sends_seen += 1
            sim.stat('fault.send-eagain')
            sim.log('send-eagain', conn.index)
            raise BlockingIOError(errno.EAGAIN,
                                  'Resource temporarily unavailable')
        stall = self.net.send_stalls.get(self.net.sends_seen)
        self.net.sends_seen += 1
        if stall:
            # backpressure: the caller sits in send() (holding whatever
            # locks it holds) for a while
            sim.stat('fault.send-stall')
            sim.log('send-stall', (conn.index, stall))
            sim.block(lambda: False, stall, reason='send-stall')
            if conn.local_shutdown or conn.local_wr_shutdown or self.closed:
                raise BrokenPipeError(errno.EPIPE, 'Broken pipe')
        if conn.s2c_eof and conn.server_closed:
            # peer has closed: the first send succeeds, later ones may fail
            conn.sends_after_peer_close += 1
            if self.net.send_error and conn.sends_after_peer_close > 1 \
                    and sim.tape.choose(2, 'io'):
                sim.stat('fault.send-error')
                if conn.first_send_fail_seq is None:
                    conn.first_send_fail_seq = sim.seq
                sim.log('send-error', conn.index)
                raise BrokenPipeError(errno.EPIPE, 'Broken pipe')
        conn.client_send(data)
        return len(data)

    def sendall(self, data):
        self.send(data)

    def recv(self, n):
        return _read(self, n)

    def shutdown(self, how):
        sim = self.sim
        sim.yield_point(13)
        if self.closed:
            raise OSError(errno.EBADF, 'Bad file descriptor')
        conn = self.conn
        if conn is None or conn.s2c_rst:
            raise OSError(errno.ENOTCONN,
                          'Transport endpoint is not connected')
        sim.log('shutdown', conn.index)
        if how == 1:
            # SHUT_WR: FIN goes out, later sends fail, but a reader blocked
            # in recv()/select() on this socket is NOT woken (as on Linux)
            if not conn.local_wr_shutdown:
                conn.local_wr_shutdown = True
                conn.client_fin()
                sim.dirty = True
            return
        if how == 0:
            # SHUT_RD: readers see EOF, nothing is sent
            conn.local_shutdown = True
            sim.dirty = True
            return
        if not conn.local_shutdown:
            conn.local_shutdown = True
            conn.local_wr_shutdown = True
            conn.client_fin()
            sim.dirty = True

    def close(self):
        sim = self.sim
        sim.yield_point(14)
        if not self._closed:
            self._closed = True
            sim.log('close', self.fd)
            self._maybe_release()
            sim.dirty = True

    def settimeout(self, t):
        if t is not None and t < 0:
            raise ValueError('Timeout value out of range')
        self.timeout = t

    def gettimeout(self):
        return self.timeout

    def setblocking(self, flag):
        self.timeout = None if flag else 0.0

    def getblocking(self):
        return self.timeout != 0.0

    def setsockopt(self, *a):
        pass

    def getsockopt(self, *a):
        return 0

    def getpeername(self):
        if self.conn is None:
            raise OSError(errno.ENOTCONN,
                          'Transport endpoint is not connected')
        return (MARKER_ADDR[0], 25565)

    def getsockname(self):
        return ('192.0.2.7', 40000 + self.fd)

    def recv_into(self, buf, nbytes=0):
        data = self.recv(nbytes or len(buf))
        buf[:len(data)] = data
        return len(data)

    def detach(self):
        self.sim.unsupported('socket.detach()')

    def __enter__(self):
        return self

    def __exit__(self, *a):
        self.close()

    def __getattr__(self, name):
        if name.startswith('__'):
            raise AttributeError(name)
        self.sim.unsupported('socket object .%s' % name)


def _read(sock, n):
    """Blocking read of 1..n bytes, b'' at EOF/shutdown."""
    sim, net = sock.sim, sock.net
    conn = sock.conn
    me = sim.current
    me.io_ops += 1
    if conn is None:
        raise OSError(errno.ENOTCONN, 'Transport endpoint is not connected')
    while True:
        if conn.s2c_avail:
            avail = len(conn.s2c_avail)
            k = min(n, avail)
            if k > 1:
                if net.one_byte_reads:
                    k = 1
                    sim.stat('fault.short-read')
                elif net.short_read and sim.tape.choose(2, 'short'):
                    k = 1 + sim.tape.choose(k - 1, 'short')
                    sim.stat('fault.short-read')
            data = bytes(conn.s2c_avail[:k])
            del conn.s2c_avail[:k]
            conn.s2c_consumed += k
            sim.log('read', (conn.index, n, k))
            return data
        if conn.s2c_rst and conn.rst_err:
            conn.rst_err = False
            sim.log('read-rst', conn.index)
            raise ConnectionResetError(errno.ECONNRESET,
                                       'Connection reset by peer')
        if conn.s2c_eof or conn.local_shutdown or conn.s2c_rst:
            conn.eof_reads += 1
            sim.log('read-eof', (conn.index, conn.eof_reads))
            lim = net.eof_read_limit
            if lim is not None and conn.eof_reads > lim:
                sim.violate('spin-after-eof', {'conn': conn.index,
                                               'reads': conn.eof_reads},
                            fatal=True)
            return b''
        if n == 0:
            return b''
        sim.stat('read-blocked')
        to = sock.timeout
        if to is None:
            sim.block(conn.readable, reason='read[%d]' % conn.index)
        elif to == 0:
            raise BlockingIOError(errno.EAGAIN,
                                  'Resource temporarily unavailable')
        elif not sim.block(conn.readable, int(to * 1e6),
                           reason='read[%d]' % conn.index):
            sim.log('read-timeout', conn.index)
            raise TimeoutError('timed out')


class SimSocketIO(object):
    """socket.makefile('rb', 0) result."""

    def __init__(self, sock):
        self.sock = sock
        self.closed = False

    def read(self, n=-1):
        sim = self.sock.sim
        sim.yield_point(15)
        if self.closed:
            raise ValueError('I/O operation on closed file')
        if n is None or n < 0:
            raise HarnessError('unbounded read')
        return _read(self.sock, n)

    def readinto(self, b):
        data = self.read(len(b))
        b[:len(data)] = data
        return len(data)

    def fileno(self):
        if self.closed:
            raise ValueError('I/O operation on closed file')
        return self.sock.fileno()

    def close(self):
        sim = self.sock.sim
        sim.yield_point(16)
        if not self.closed:
            self.closed = True
            self.sock._io_refs -= 1
            sim.log('file-close', self.sock.fd)
            self.sock._maybe_release()
            sim.dirty = True


import io as _io


class _RawAdapter(_io.RawIOBase):
    """Lets io.BufferedReader sit on top of a SimSocketIO (a buffered
    makefile(): it reads ahead, exactly like the real one)."""

    def __init__(self, raw):
        _io.RawIOBase.__init__(self)
        self._raw = raw

    def readable(self):
        return True

    def readinto(self, b):
        data = _read(self._raw.sock, len(b))
        b[:len(data)] = data
        return len(data)

    def fileno(self):
        return self._raw.fileno()

    def close(self):
        if not self.closed:
            self._raw.close()
        _io.RawIOBase.close(self)


class SimSocketModule(object):
    """Stands in for the `socket` module as seen by connection.py."""
    AF_INET, AF_INET6, SOCK_STREAM = AF_INET, AF_INET6, SOCK_STREAM
    SHUT_RDWR = SHUT_RDWR
    SHUT_RD, SHUT_WR = 0, 1
    error = OSError
    timeout = TimeoutError
    gaierror = OSError

    def __init__(self, net):
        self._net = net

    def getaddrinfo(self, host, port, family=0, type_=0, proto=0, flags=0):
        self._net.sim.yield_point(17)
        self._net.sim.log('getaddrinfo', (host, port))
        return [(AF_INET6, SOCK_STREAM, 6, '', ('2001:db8::1', port, 0, 0)),
                (AF_INET, SOCK_STREAM, 6, '', (MARKER_ADDR[0], port))]

    def socket(self, family=AF_INET, type_=SOCK_STREAM, proto=0):
        self._net.sim.yield_point(18)
        return SimSocket(self._net, family, type_, proto)

    def create_connection(self, addr, timeout=None, source_address=None,
                          **k):
        s = self.socket()
        if timeout is not None:
            s.settimeout(timeout)
        s.connect(addr)
        return s

    def gethostbyname(self, host):
        return MARKER_ADDR[0]

    def __getattr__(self, name):
        import socket as real
        val = getattr(real, name, None)
        if isinstance(val, int) and not isinstance(val, bool) or \
                isinstance(val, type) and issubclass(val, BaseException):
            return val          # constants (SOL_SOCKET, TCP_NODELAY, ...)
        self._net.sim.unsupported('socket.%s' % name)


class SimSelectModule(object):
    error = OSError

    def __init__(self, net):
        self._net = net

    def select(self, rlist, wlist, xlist, timeout=None):
        net, sim = self._net, self._net.sim
        sim.yield_point(19)
        if wlist or xlist or len(rlist) != 1:
            raise HarnessError('unsupported select() call shape')
        f = rlist[0]
        fd = f.fileno() if hasattr(f, 'fileno') else f
        if not isinstance(fd, int) or fd < 0:
            raise ValueError('file descriptor cannot be a negative '
                             'integer (%r)' % (fd,))
        if fd >= 1024:
            # FD_SETSIZE: a failing call, not a wait
            sim.stat('fault.fd-out-of-range')
            sim.log('select-fd-out-of-range', fd)
            sim.current.io_ops += 1
            raise ValueError('filedescriptor out of range in select()')
        sock = net.fds.get(fd)
        if sock is None:
            raise OSError(errno.EBADF, 'Bad file descriptor')
        conn = sock.conn
        me = sim.current
        me.io_ops += 1
        if conn is None:
            raise HarnessError('select on unconnected socket')
        if conn.readable():
            self._count_eof(conn)
            sim.log('select-ready', conn.index)
            return [f], [], []
        if timeout is not None and timeout <= 0:
            sim.log('select-poll-empty', conn.index)
            return [], [], []
        to = None if timeout is None else int(timeout * 1000000)
        sim.stat('select-wait')
        ok = sim.block(conn.readable, to, reason='select[%d]' % conn.index)
        if ok:
            self._count_eof(conn)
            sim.log('select-ready', conn.index)
            return [f], [], []
        sim.stat('select-timeout')
        sim.log('select-timeout', conn.index)
        return [], [], []

    # ---- poll(): same readiness model, Linux event masks
    POLLIN, POLLPRI, POLLOUT, POLLERR, POLLHUP, POLLNVAL = 1, 2, 4, 8, 16, 32
    POLLRDHUP = 0x2000

    def poll(self):
        return SimPoll(self)

    def __getattr__(self, name):
        import select as real
        val = getattr(real, name, None)
        if isinstance(val, int) and not isinstance(val, bool):
            return val
        self._net.sim.unsupported('select.%s' % name)

    def _count_eof(self, conn):
        if not conn.s2c_avail and (conn.s2c_eof or conn.local_shutdown):
            lim = self._net.eof_read_limit
            conn.eof_reads += 1
            if lim is not None and conn.eof_reads > 4 * lim:
                self._net.sim.violate('spin-after-eof',
                                      {'conn': conn.index, 'select': True},
                                      fatal=True)


class SimPoll(object):
    """select.poll() object over simulated sockets (tcp_poll() semantics:
    IN for data or a received FIN/RST/local read shutdown, ERR while a reset
    has not been reported yet, HUP once both directions are shut or the
    connection was reset, NVAL for a descriptor that is not open)."""

    def __init__(self, mod):
        self._mod = mod
        self._reg = {}

    @staticmethod
    def _fd(f):
        fd = f.fileno() if hasattr(f, 'fileno') else f
        if not isinstance(fd, int) or fd < 0:
            raise ValueError('file descriptor cannot be a negative '
                             'integer (%r)' % (fd,))
        return fd

    def register(self, f, eventmask=1 | 2 | 4):
        self._reg[self._fd(f)] = eventmask

    def modify(self, f, eventmask):
        fd = self._fd(f)
        if fd not in self._reg:
            raise OSError(errno.ENOENT, 'No such file or directory')
        self._reg[fd] = eventmask

    def unregister(self, f):
        del self._reg[self._fd(f)]

    def _events(self):
        M = self._mod
        net = M._net
        out = []
        for fd, mask in self._reg.items():
            sock = net.fds.get(fd)
            if sock is None:
                out.append((fd, M.POLLNVAL))
                continue
            conn = sock.conn
            if conn is None:
                # not connected: writable + hung up, as on Linux
                ev = (M.POLLOUT & mask) | M.POLLHUP
                out.append((fd, ev))
                continue
            ev = 0
            rd_shut = conn.s2c_eof or conn.s2c_rst or conn.local_shutdown
            wr_shut = conn.local_shutdown or conn.local_wr_shutdown or \
                conn.s2c_rst
            if conn.s2c_avail or rd_shut:
                ev |= M.POLLIN & mask
            if rd_shut:
                ev |= M.POLLRDHUP & mask
            if conn.s2c_rst and conn.rst_err:
                ev |= M.POLLERR
            if conn.s2c_rst or (rd_shut and wr_shut):
                ev |= M.POLLHUP
            if not wr_shut:
                ev |= M.POLLOUT & mask
            if ev:
                out.append((fd, ev))
        return out

    def poll(self, timeout=None):
        M = self._mod
        net, sim = M._net, M._net.sim
        sim.yield_point(19)
        sim.current.io_ops += 1
        conns = [net.fds[fd].conn for fd in self._reg
                 if fd in net.fds and net.fds[fd].conn is not None]
        ev = self._events()
        if not ev and not (timeout is not None and timeout <= 0):
            to = None if timeout is None else int(timeout * 1000)
            sim.stat('select-wait')
            sim.block(lambda: bool(self._events()), to, reason='poll')
            ev = self._events()
            if not ev:
                sim.stat('select-timeout')
        for c in conns:
            if ev:
                M._count_eof(c)
        sim.log('poll', tuple(e for _fd, e in ev))
        return ev


class SimTimeit(object):
    def __init__(self, sim):
        self._sim = sim

    def default_timer(self):
        self._sim.yield_point(20)
        self._sim.stat('clock-read')
        return self._sim.now / 1000000.0


class SimRLock(object):
    def __init__(self, sim):
        self.sim = sim
        self.owner = None
        self.count = 0
        self.acquisitions = 0

    def acquire(self, blocking=True, timeout=-1):
        sim = self.sim
        if sim.aborting:
            return True
        sim.yield_point(21)
        me = sim.current or 'set-up'
        if self.owner == me:
            self.count += 1
            return True
        while self.owner is not None:
            if not blocking:
                return False
            sim.stat('lock-contended')
            to = None if timeout is None or timeout < 0 \
                else int(timeout * 1e6)
            if not sim.block(lambda: self.owner is None, to, reason='lock'):
                sim.log('lock-timeout', None)
                return False
        self.owner = me
        self.count = 1
        self.acquisitions += 1
        return True

    def release(self):
        sim = self.sim
        if sim.aborting:
            return
        me = sim.current or 'set-up'
        if self.owner != me:
            raise RuntimeError('cannot release un-acquired lock')
        self.count -= 1
        if self.count == 0:
            self.owner = None
            sim.dirty = True
        sim.yield_point(22)

    __enter__ = acquire

    def __exit__(self, *a):
        self.release()

    def held_by_current(self):
        return self.owner is self.sim.current

"""One simulated run: Sim + Net + Server + patched pyCraft."""
import random

from . import seams
from .sched import Sim, SimAbort, HarnessError
from .net import Net
from .server import Server
from .tape import Tape, Policy, make_rng


class ApiResult(object):
    __slots__ = ('name', 'ok', 'value', 'exc', 'inv', 'ret')

    def __init__(self, name, ok, value, exc, inv, ret):
        self.name, self.ok, self.value, self.exc = name, ok, value, exc
        self.inv, self.ret = inv, ret

    def __repr__(self):
        return '<%s %s inv=%s ret=%s>' % (
            self.name, 'ok' if self.ok else repr(self.exc), self.inv,
            self.ret)


class World(object):
    def __init__(self, scenario, tape):
        self.scenario = scenario
        self.tape = tape
        sc = scenario.get('sched', {})
        self.sim = Sim(tape, max_steps=sc.get('max_steps', 200000),
                       max_vtime_us=sc.get('max_vtime_us', 3600 * 10**6),
                       trace=scenario.get('trace', False))
        self.sim.line_mute = sc.get('granularity', 'line') == 'io'
        self.sim.wall_jumps = scenario.get('wall_jumps')
        if scenario.get('stall'):
            self.sim.stall = dict(scenario['stall'])
        self.server = Server(self.sim, scenario.get('server', {}))
        self.net = Net(self.sim, self.server, scenario.get('net', {}))
        self.rand = make_rng('rand', scenario.get('rand_seed', 0))
        self.calls = []
        self.last_api_step = 0
        self.prop_id = scenario.get('_prop', 'C??')
        self.extra = []      # [(obj, attr, value)] patched for the run

    def api(self, name, fn, *args, **kw):
        """A public-API call made by a harness thread; logged with seqs."""
        sim = self.sim
        sim.yield_point(40)
        self.last_api_step = sim.steps
        inv = sim.log('call', name)
        st = sim.stall
        if st is not None and st.get('api') == name:
            # (the plan applies to the skip-th call of that name)
            st['seen'] = st.get('seen', 0) + 1
            if st['seen'] == st.get('skip', 0) + 1:
                st.update(tid=sim.current.tid, count=0)
        try:
            v = fn(*args, **kw)
        except SimAbort:
            raise
        except Exception as e:
            if st is not None and st.get('tid') == sim.current.tid:
                st['tid'] = None
            r = ApiResult(name, False, None, e, inv, None)
            r.ret = sim.log('ret', (name, type(e).__name__))
            self.calls.append(r)
            return r
        if st is not None and st.get('tid') == sim.current.tid:
            st['tid'] = None
        r = ApiResult(name, True, v, None, inv, None)
        self.last_api_step = sim.steps
        r.ret = sim.log('ret', (name, 'ok'))
        self.calls.append(r)
        return r

    def sleep(self, us):
        """Virtual sleep of a harness thread."""
        sim = self.sim
        sim.block(lambda: False, us, reason='sleep')

    def wait_until(self, pred, timeout_us=None, reason='wait', budget=False):
        """Patient harness wait for something that ought to happen: never
        expires on the virtual clock; gives up (False) when the system is
        quiescent or, if a budget is given (True = max_steps/3, or an int),
        after that many scheduler steps.  A run that never gets there ends at
        the step cap.  timeout_us is documentation only."""
        return self.sim.block(pred, None, reason=reason, poll=True,
                              patient=True, budget=budget)

    def wait_for(self, pred, timeout_us, reason='wait-for'):
        """Impatient wait: until pred or timeout_us of VIRTUAL time.  For
        workload pacing only - never for an oracle."""
        return self.sim.block(pred, timeout_us, reason=reason, poll=True,
                              patient=False)

    def run(self, build, wall_timeout=30.0):
        seams.import_minecraft()
        gran = self.scenario.get('sched', {}).get('granularity', 'line')
        seams.instrument(granularity='instr' if gran == 'instr' else 'line')
        with seams.installed(self.sim, self.net, self.rand,
                             extra=self.extra) as simos:
            self.simos = simos
            build(self)
            self.sim.run(wall_timeout)
        if self.sim.harness_error:
            raise HarnessError(self.sim.harness_error)
        return self


def default_policy(rng, kind='mixed'):
    p = rng.choice([0.0, 0.01, 0.05, 0.2, 0.5])
    pe = rng.choice([0.0, 0.02, 0.1, 0.3])
    return Policy(p_sched=p, p_event=pe, p_io=0.3, p_short=0.3, p_seg=0.3,
                  name='rw(p=%s,pe=%s)' % (p, pe))

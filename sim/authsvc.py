"""In-process stand-in for Mojang's Yggdrasil / session services.

authentication.requests is replaced by SimRequests, which performs the POST
through a real requests.Session with a mounted BaseAdapter: request
preparation, header and JSON encoding and Response decoding are the real
library's; only TCP is absent.
"""
import io
import json

import requests
from requests.adapters import BaseAdapter
from requests.structures import CaseInsensitiveDict


class Reply(object):
    def __init__(self, status, body=b'', headers=None):
        self.status = status
        self.body = body if isinstance(body, bytes) else body.encode('utf-8')
        self.headers = headers or {'Content-Type': 'application/json'}


class Service(object):
    """Scripted service: replies come from a list, in order; every request is
    recorded as (url, headers, parsed-json-or-None, raw body)."""

    def __init__(self, replies=None, default=None, on_request=None):
        self.replies = list(replies or [])
        self.default = default or Reply(204)
        self.requests = []
        self.on_request = on_request

    def handle(self, prepared):
        body = prepared.body
        if isinstance(body, str):
            body = body.encode('utf-8')
        try:
            parsed = json.loads(body.decode('utf-8')) if body else None
        except ValueError:
            parsed = None
        self.requests.append({'url': prepared.url, 'method': prepared.method,
                              'headers': dict(prepared.headers),
                              'json': parsed, 'raw': body})
        if self.on_request is not None:
            self.on_request(self.requests[-1])
        if self.replies:
            return self.replies.pop(0)
        return self.default


class _Adapter(BaseAdapter):
    def __init__(self, service):
        super(_Adapter, self).__init__()
        self.service = service

    def send(self, request, stream=False, timeout=None, verify=True,
             cert=None, proxies=None):
        reply = self.service.handle(request)
        resp = requests.Response()
        resp.status_code = reply.status
        resp.headers = CaseInsensitiveDict(reply.headers)
        resp.raw = io.BytesIO(reply.body)
        resp._content = reply.body
        resp._content_consumed = True
        resp.url = request.url
        resp.request = request
        resp.reason = 'SIM'
        resp.encoding = requests.utils.get_encoding_from_headers(resp.headers)
        return resp

    def close(self):
        pass


class SimRequests(object):
    """Stands in for the `requests` module as seen by authentication.py."""
    codes = requests.codes
    exceptions = requests.exceptions

    def __init__(self, service, sim=None):
        self.service = service
        self.sim = sim
        self.session = requests.Session()
        self.session.trust_env = False
        self.session.mount('https://', _Adapter(service))
        self.session.mount('http://', _Adapter(service))

    def post(self, url, data=None, json=None, headers=None, timeout=None,
             **kw):
        if self.sim is not None:
            self.sim.yield_point(50)
            self.sim.log('http-post', url)
        return self.session.post(url, data=data, json=json, headers=headers,
                                 timeout=timeout)

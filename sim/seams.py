"""Installs the simulator behind pyCraft's module-level names (no /repo hooks).

Seams: connection.{socket,select,RLock,timeit}, NetworkingThread.{start,join,
is_alive}, encryption.os, authentication.{uuid,requests}; pre-emption points
via sys.monitoring LINE events on repo code objects only.
"""
import os
import sys
import types
import contextlib

from . import sched
from .sched import SimAbort, HarnessError, current_simthread
from .net import (Net, SimSocketModule, SimSelectModule, SimTimeit, SimRLock)
from . import stdlib

TOOL_ID = 3
_instrumented = {'done': False, 'files': (), 'gran': None}


def repo_path():
    return os.path.realpath(os.environ.get('VERIF_REPO', '/repo'))


def import_minecraft():
    """Import pyCraft from the working tree under test; verify provenance."""
    rp = repo_path()
    if sys.path[0] != rp:
        sys.path.insert(0, rp)
    import minecraft
    got = os.path.realpath(os.path.dirname(os.path.dirname(
        minecraft.__file__)))
    if got != rp:
        raise HarnessError('minecraft imported from %s, expected %s'
                           % (got, rp))
    import minecraft.networking.connection  # noqa
    import minecraft.networking.encryption  # noqa
    import minecraft.authentication  # noqa
    return minecraft


def _code_objects(mod):
    seen = set()
    out = []

    def walk(code):
        if id(code) in seen:
            return
        seen.add(id(code))
        out.append(code)
        for c in code.co_consts:
            if isinstance(c, types.CodeType):
                walk(c)

    def visit(obj, depth=0):
        if isinstance(obj, types.FunctionType):
            walk(obj.__code__)
        elif isinstance(obj, (staticmethod, classmethod)):
            visit(obj.__func__, depth)
        elif isinstance(obj, property):
            for f in (obj.fget, obj.fset, obj.fdel):
                if f is not None:
                    visit(f, depth)
        elif isinstance(obj, type) and depth < 3:
            for v in list(vars(obj).values()):
                visit(v, depth + 1)

    for v in list(vars(mod).values()):
        visit(v)
    fn = getattr(mod, '__file__', None)
    return [c for c in out if c.co_filename == fn]


def _on_line(code, line):
    st = current_simthread()
    if st is None:
        return
    sim = st.sim
    if sim.in_sched or sim.line_mute:
        return
    sim.yield_point(line)


def _on_instr(code, off):
    st = current_simthread()
    if st is None:
        return
    sim = st.sim
    if sim.in_sched or sim.line_mute:
        return
    sim.yield_point(off + 100000)


DEFAULT_MODULES = ('minecraft.networking.connection',
                   'minecraft.networking.packets.packet',
                   'minecraft.networking.encryption')


def instrument(modules=DEFAULT_MODULES, granularity='line'):
    """Enable sys.monitoring local events on the code of the given modules."""
    mon = sys.monitoring
    if _instrumented['done']:
        if _instrumented['gran'] == granularity and \
                _instrumented['files'] == tuple(modules):
            return
        uninstrument()
    import importlib
    if mon.get_tool(TOOL_ID) is None:
        mon.use_tool_id(TOOL_ID, 'pycraft-dst')
    ev = mon.events.LINE if granularity == 'line' else \
        (mon.events.LINE | mon.events.INSTRUCTION)
    mon.register_callback(TOOL_ID, mon.events.LINE, _on_line)
    if granularity != 'line':
        mon.register_callback(TOOL_ID, mon.events.INSTRUCTION, _on_instr)
    codes = []
    rp = repo_path()
    for name in modules:
        mod = importlib.import_module(name)
        if not os.path.realpath(mod.__file__).startswith(rp + os.sep):
            raise HarnessError('%s not under repo' % name)
        for code in _code_objects(mod):
            mon.set_local_events(TOOL_ID, code, ev)
            codes.append(code)
    _instrumented.update(done=True, files=tuple(modules), gran=granularity,
                         codes=codes)


def uninstrument():
    mon = sys.monitoring
    if not _instrumented['done']:
        return
    for code in _instrumented.get('codes', ()):
        mon.set_local_events(TOOL_ID, code, 0)
    mon.register_callback(TOOL_ID, mon.events.LINE, None)
    mon.register_callback(TOOL_ID, mon.events.INSTRUCTION, None)
    _instrumented.update(done=False, files=(), gran=None, codes=[])


class SimOs(object):
    """encryption.os: urandom from the run's scenario PRNG, recorded."""

    def __init__(self, sim, rng):
        self._sim, self._rng = sim, rng
        self.draws = []

    def urandom(self, n):
        b = bytes(self._rng.randrange(256) for _ in range(n))
        self.draws.append(b)
        self._sim.log('urandom', n)
        return b

    def __getattr__(self, name):
        return getattr(os, name)


@contextlib.contextmanager
def installed(sim, net, rand_rng, extra=None):
    """Patch pyCraft's module attributes for the duration of one run."""
    from minecraft.networking import connection, encryption
    C = connection
    saved = {}

    def setattr_(obj, name, val):
        saved[(obj, name)] = obj.__dict__.get(name, _MISSING) \
            if isinstance(obj, type) else getattr(obj, name, _MISSING)
        setattr(obj, name, val)

    sim.line_mute = False
    simos = SimOs(sim, rand_rng)
    sim.simos = simos
    # every reference a pyCraft module holds to socket / select / time /
    # timeit / threading (modules or the usual names imported from them),
    # and every Thread subclass it defines
    stdlib.patch_all(sim, net, setattr_)
    setattr_(encryption, 'os', simos)

    if extra:
        for obj, name, val in extra:
            setattr_(obj, name, val)
    try:
        yield simos
    finally:
        for (obj, name), val in saved.items():
            if val is _MISSING:
                try:
                    delattr(obj, name)
                except AttributeError:
                    pass
            else:
                setattr(obj, name, val)


_MISSING = object()

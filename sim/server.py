"""Independent, event-driven Minecraft server stub.

Written from the protocol description; shares only packet id tables and the
version order with pyCraft (sim/ids.py).  It never runs in the client's call
stack: it is stepped by transport events.  Behaviour per accepted TCP
connection comes from the scenario ("script"); everything it sees is recorded
for the oracles.
"""
import json

from . import wire
from .wire import (varint, varlong, string, bytearr, i64, u16, f64, f32, i8,
                   boolean, read_varint, read_string, read_bytearr)
from .ids import ids_for

KEYS = None


def load_keys():
    global KEYS
    if KEYS is None:
        import os
        p = os.path.join(os.path.dirname(os.path.dirname(
            os.path.abspath(__file__))), 'keys', 'rsa.json')
        raw = json.load(open(p))
        KEYS = {int(b): {'n': int(v['n']), 'e': v['e'], 'd': int(v['d']),
                         'der': bytes.fromhex(v['der_hex'])}
                for b, v in raw.items()}
    return KEYS


class App(object):
    """Server-side state of one TCP connection."""

    def __init__(self, conn, beh):
        self.conn = conn
        self.beh = beh
        self.state = 'handshake'
        self.proto = None
        self.ids = None
        self.handshake = None
        self.deframer = wire.Deframer()
        self.frames = []            # (seq, state, id, body, meta)
        self.sent = []              # (seq, kind, info)
        self.errors = []            # protocol violations seen by the server
        self.login_name = None
        self.login_pc = 0
        self.play_pc = 0
        self.waiting = None         # what the script is waiting for
        self.out_threshold = None   # framing mode for server -> client
        self.enc = None             # encryption record
        self.dec_in = None          # CFB8 for inbound
        self.enc_out = None         # CFB8 for outbound
        self.plugin_outstanding = {}   # msg id -> count expected
        self.plugin_answers = []    # (seq, msg_id, successful, data)
        self.play_frames = 0
        self.raw_plain = bytearray()    # inbound after decryption
        self.out_plain = bytearray()    # outbound before encryption
        self.out_frames = []        # (start, end, kind) offsets in out stream
        self.status_requests = 0
        self.pings = []
        self.closed_by_script = False
        self.fin_seen = False
        self.cut = beh.get('cut')
        self.cut_done = False
        self.reached_play = False
        self.success_end = None


class Server(object):
    def __init__(self, sim, script):
        self.sim = sim
        self.script = script
        self.apps = []
        load_keys()

    # ------------------------------------------------------------ helpers
    def _beh(self, index):
        conns = self.script.get('conns') or [{}]
        return conns[index] if index < len(conns) else conns[-1]

    def _send_raw(self, app, data, kind, info=None):
        """data: plaintext frame bytes (before encryption)."""
        conn = app.conn
        if app.cut_done or conn.server_closed:
            return
        start = len(app.out_plain)
        app.out_plain += data
        app.out_frames.append((start, start + len(data), kind))
        seq = self.sim.log('srv-send', (conn.index, kind, len(data)))
        app.sent.append((seq, kind, info, self.sim.now))
        wire_bytes = app.enc_out.update(data) if app.enc_out else data
        if app.cut is not None:
            room = app.cut - conn.s2c_sent
            if len(wire_bytes) >= room:
                conn.server_send(wire_bytes[:max(room, 0)])
                app.cut_done = True
                self.sim.stat('fault.cut')
                if app.beh.get('cut_mode') == 'rst':
                    self.sim.stat('fault.rst')
                    conn.server_rst()
                else:
                    conn.server_close()
                return
        conn.server_send(wire_bytes)

    def _send(self, app, pid, body, kind, info=None):
        payload = varint(pid) + body
        self._send_raw(app, wire.frame(payload, app.out_threshold), kind, info)

    def _check_cut0(self, app):
        if app.cut is not None and app.cut <= 0 and not app.cut_done:
            app.cut_done = True
            self.sim.stat('fault.cut')
            if app.beh.get('cut_mode') == 'rst':
                self.sim.stat('fault.rst')
                app.conn.server_rst()
            else:
                app.conn.server_close()

    def _close(self, app):
        app.closed_by_script = True
        self.sim.log('srv-close', app.conn.index)
        if app.beh.get('close_mode') == 'rst':
            # an abortive close (SO_LINGER 0 / unread input at the server)
            self.sim.stat('fault.rst')
            app.conn.server_rst()
        else:
            app.conn.server_close()

    # ------------------------------------------------------------ events
    def on_accept(self, conn):
        app = App(conn, self._beh(conn.index))
        conn.app = app
        self.apps.append(app)
        self.sim.log('srv-accept', conn.index)
        self._check_cut0(app)
        if app.beh.get('raw'):
            data = bytes.fromhex(app.beh.get('send_hex', ''))
            if data:
                conn.server_send(data)
            return
        st = app.beh.get('status') or {}
        if app.beh.get('close_on_accept') or \
                st.get('mode') == 'close_on_accept':
            self._close(app)
        if app.beh.get('rst_on_accept'):
            self.sim.stat('fault.rst')
            conn.server_rst()

    def on_fin(self, conn):
        app = conn.app
        app.fin_seen = True
        if app.deframer.buf:
            app.errors.append('client stream ended inside a frame '
                              '(%d stray bytes)' % len(app.deframer.buf))
        if not conn.server_closed and not app.beh.get('ignore_fin'):
            conn.server_close()

    def on_data(self, conn, data):
        app = conn.app
        if app.beh.get('raw'):
            return
        if app.dec_in is not None:
            data = app.dec_in.update(data)
        app.raw_plain += data
        df = app.deframer
        df.buf += data
        while True:
            fr = df.next()
            if fr is None:
                break
            self._handle(app, fr)
        if df.error and df.error not in app.errors:
            app.errors.append(df.error)

    # ------------------------------------------------------------ frames
    def _handle(self, app, fr):
        pid, body, meta = fr
        seq = self.sim.log('srv-frame', (app.conn.index, app.state, pid,
                                         len(body)))
        meta['vtime'] = self.sim.now
        app.frames.append((seq, app.state, pid, body, meta))
        st = app.state
        try:
            if st == 'handshake':
                self._on_handshake(app, pid, body)
            elif st == 'status':
                self._on_status(app, pid, body)
            elif st == 'login':
                self._on_login(app, pid, body)
            elif st in ('play', 'paused'):
                app.play_frames += 1
                if st == 'play':
                    self._run_play(app)
        except (wire.WireError, wire.NeedMore, UnicodeDecodeError,
                IndexError) as e:
            app.errors.append('undecodable %s frame id=%d: %r' % (st, pid, e))

    def _on_handshake(self, app, pid, body):
        if pid != 0:
            app.errors.append('first frame id %d is not a handshake' % pid)
            return
        proto, p = read_varint(body, 0)
        host, p = read_string(body, p)
        port = int.from_bytes(body[p:p + 2], 'big')
        p += 2
        nxt, p = read_varint(body, p)
        if p != len(body):
            app.errors.append('trailing bytes in handshake')
        app.handshake = {'protocol': proto, 'host': host, 'port': port,
                         'next_state': nxt}
        app.proto = proto
        if nxt == 1:
            app.state = 'status'
            sc_cut = self.script.get('status_cut')
            if sc_cut is not None and app.cut is None:
                # the fault applies to every status conversation of this run
                app.cut = sc_cut
                self._check_cut0(app)
        elif nxt == 2:
            app.state = 'login'
            try:
                app.ids = ids_for(proto)
            except Exception:
                app.errors.append('handshake with unusable protocol %r'
                                  % proto)
                app.state = 'dead'
        else:
            app.errors.append('bad next_state %r' % nxt)
            app.state = 'dead'

    def _on_status(self, app, pid, body):
        st = app.beh.get('status') or {}
        mode = st.get('mode', 'reply')
        if pid == 0:
            if body:
                app.errors.append('status request with a body')
            app.status_requests += 1
            if mode == 'reply':
                def reply():
                    self._send(app, 0, string(st.get('json', '{}')),
                               'status-response')
                    if st.get('close_after_reply'):
                        self._close(app)
                if st.get('reply_delay_us'):
                    # a slow server: it answers, only late
                    self.sim.stat('fault.slow-reply')
                    self.sim.after(st['reply_delay_us'], reply,
                                   'status-reply-delay')
                else:
                    reply()
            elif mode == 'close_on_request':
                self._close(app)
            elif mode == 'silent':
                pass
        elif pid == 1:
            if len(body) != 8:
                app.errors.append('ping body of %d bytes' % len(body))
            app.pings.append((self.sim.seq, bytes(body)))
            if st.get('pong', True):
                delay = st.get('pong_delay_us', 0)
                def pong():
                    self._send(app, 1, bytes(body), 'pong')
                    if st.get('close_after_pong'):
                        self._close(app)
                if delay:
                    self.sim.after(delay, pong, 'pong-delay')
                else:
                    pong()
        else:
            app.errors.append('unexpected status frame id %d' % pid)

    # ---- login
    def _on_login(self, app, pid, body):
        ids = app.ids
        if app.login_name is None:
            if pid != ids['sb.login.start']:
                app.errors.append('expected login start, got id %d' % pid)
                return
            name, p = read_string(body, 0)
            if p != len(body):
                app.errors.append('trailing bytes in login start')
            app.login_name = name
            self._run_login(app)
            return
        if app.waiting == 'hold':
            return
        if pid == ids['sb.login.encryption_response'] and \
                app.waiting == 'enc':
            self._on_enc_response(app, body)
            self._run_login(app)
        elif ids['sb.login.plugin_response'] is not None and \
                pid == ids['sb.login.plugin_response']:
            mid, p = read_varint(body, 0)
            ok = body[p] != 0
            data = bytes(body[p + 1:])
            app.plugin_answers.append((self.sim.seq, mid, ok, data))
            if app.plugin_outstanding.get(mid, 0) > 0:
                app.plugin_outstanding[mid] -= 1
            else:
                app.errors.append('unsolicited/duplicate plugin response '
                                  'for message id %d' % mid)
            if app.waiting == 'plugins' and not self._plugins_pending(app):
                app.waiting = None
                self._run_login(app)
        else:
            app.errors.append('unexpected login frame id %d while waiting '
                              'for %r' % (pid, app.waiting))

    def _pending_all_in_this_burst(self, app):
        """Every unanswered plugin request left the server in the very
        burst that is being written now (so no answer to it can have been
        written before the client sees what follows)."""
        sent_at = getattr(app, 'plugin_sent_at', {})
        return all(t == self.sim.now
                   for k, v in app.plugin_outstanding.items() if v > 0
                   for t in sent_at.get(k, [None])[-v:])

    def _plugins_pending(self, app):
        skip = app.beh.get('no_wait_plugins') or ()
        return any(v > 0 for k, v in app.plugin_outstanding.items()
                   if k not in skip)

    def _on_enc_response(self, app, body):
        enc = app.enc
        blob1, p = read_bytearr(body, 0)
        blob2, p = read_bytearr(body, p)
        if p != len(body):
            app.errors.append('trailing bytes in encryption response')
        key = KEYS[enc['bits']]
        secret = wire.rsa_decrypt_pkcs1v15(blob1, key['n'], key['d'])
        token = wire.rsa_decrypt_pkcs1v15(blob2, key['n'], key['d'])
        enc['blob_lens'] = (len(blob1), len(blob2))
        enc['secret'] = secret
        enc['token_back'] = token
        enc['response_seq'] = self.sim.seq
        enc['response_meta'] = app.frames[-1][4]
        if secret is None or len(secret) != 16:
            app.errors.append('shared secret does not decrypt to 16 bytes')
            app.state = 'dead'
            return
        if token != enc['token']:
            app.errors.append('verify token mismatch')
        # switch both directions to AES-128-CFB8(key = iv = secret)
        app.dec_in = wire.CFB8(secret, secret, decrypt=True)
        app.enc_out = wire.CFB8(secret, secret, decrypt=False)
        df = app.deframer
        if df.buf:
            # bytes that followed the response in the same delivery
            tail = app.dec_in.update(bytes(df.buf))
            n = len(df.buf)
            del app.raw_plain[len(app.raw_plain) - n:]
            app.raw_plain += tail
            df.buf = bytearray(tail)
        enc['cipher_start'] = df.consumed
        app.waiting = None

    def _run_login(self, app):
        steps = app.beh.get('login') or [['success']]
        ids = app.ids
        while app.login_pc < len(steps) and app.waiting is None and \
                app.state == 'login':
            step = steps[app.login_pc]
            op = step[0]
            if op in ('compress', 'compress_noswitch', 'encrypt',
                      'success') and \
                    self._plugins_pending(app) and not (
                        op == 'success' and
                        app.beh.get('success_no_wait')) and not (
                        app.beh.get('pipeline_plugins') and
                        (op == 'encrypt' or
                         (app.beh['pipeline_plugins'] == 'all' and
                          op != 'success' and
                          self._pending_all_in_this_burst(app)))):
                app.waiting = 'plugins'
                return
            app.login_pc += 1
            if op == 'compress':
                t = step[1]
                self._send(app, ids['cb.login.set_compression'], varint(t),
                           'set-compression', t)
                app.out_threshold = t
                app.deframer.threshold = t
            elif op == 'compress_noswitch':
                # the packet is sent, but the framing stays as it is (the
                # scenario's client is known to ignore it)
                self._send(app, ids['cb.login.set_compression'],
                           varint(step[1]), 'set-compression', step[1])
            elif op == 'encrypt':
                o = step[1]
                key = KEYS[o['bits']]
                token = bytes.fromhex(o['token_hex'])
                app.enc = {'bits': o['bits'], 'token': token,
                           'server_id': o['server_id'],
                           'request_seq': self.sim.seq}
                self._send(app, ids['cb.login.encryption_request'],
                           string(o['server_id']) + bytearr(key['der']) +
                           bytearr(token), 'encryption-request')
                app.waiting = 'enc'
            elif op == 'plugin':
                mid, channel, data_hex = step[1], step[2], step[3]
                if ids['cb.login.plugin_request'] is None:
                    continue
                app.plugin_outstanding[mid] = \
                    app.plugin_outstanding.get(mid, 0) + 1
                if not hasattr(app, 'plugin_sent_at'):
                    app.plugin_sent_at = {}
                # (a message id may be used more than once)
                app.plugin_sent_at.setdefault(mid, []).append(self.sim.now)
                self._send(app, ids['cb.login.plugin_request'],
                           varint(mid) + string(channel) +
                           bytes.fromhex(data_hex), 'plugin-request', mid)
            elif op == 'wait_plugins':
                if self._plugins_pending(app):
                    app.waiting = 'plugins'
            elif op == 'pause':
                app.waiting = 'pause'

                def resume(app=app):
                    if app.waiting == 'pause' and app.state == 'login':
                        app.waiting = None
                        self._run_login(app)
                self.sim.after(step[1], resume, 'srv-pause')
                return
            elif op == 'hold':
                # say nothing more; whatever arrives is only recorded
                app.waiting = 'hold'
            elif op == 'success':
                uid = app.beh.get('uuid_hex', '00112233445566778899aabbccddeeff')
                name = app.login_name or ''
                if ids['later'][707]:
                    body = bytes.fromhex(uid) + string(name)
                else:
                    u = uid
                    dashed = '-'.join((u[:8], u[8:12], u[12:16], u[16:20],
                                       u[20:]))
                    body = string(dashed) + string(name)
                self._send(app, ids['cb.login.success'], body,
                           'login-success')
                app.state = 'play'
                app.reached_play = True
                app.success_end = len(app.out_plain)
                self._run_play(app)
            elif op == 'disconnect':
                self._send(app, ids['cb.login.disconnect'], string(step[1]),
                           'login-disconnect', step[1])
                self._close(app)
                app.state = 'dead'
            elif op == 'close':
                self._close(app)
                app.state = 'dead'
            elif op == 'raw':
                self._send_raw(app, bytes.fromhex(step[1]), 'raw')
            elif op == 'frame':
                # arbitrary (id, body) in the current framing mode
                self._send(app, step[1], bytes.fromhex(step[2]), 'frame',
                           step[1])
            else:
                raise ValueError('bad login step %r' % (step,))

    # ---- play
    def encode_play(self, app, item):
        """-> (pid, body, kind) for a play item."""
        ids = app.ids
        later = ids['later']
        op = item[0]
        if op == 'ka':
            v = item[1]
            body = i64(v) if later[339] else varint(v)
            return ids['cb.play.keep_alive'], body
        if op == 'pos':
            x, y, z, yaw, pitch, flags, tid, dismount = item[1:9]
            body = f64(x) + f64(y) + f64(z) + f32(yaw) + f32(pitch) + \
                i8(flags)
            if later[107]:
                body += varint(tid)
            if later[755]:
                body += boolean(dismount)
            return ids['cb.play.position'], body
        if op == 'unknown':
            return item[1], bytes.fromhex(item[2])
        if op == 'chat':
            body = string(item[1]) + i8(item[2])
            if later[718]:
                body += bytes.fromhex(item[3])
            return ids['cb.play.chat'], body
        if op == 'plugin':
            return ids['cb.play.plugin'], string(item[1]) + \
                bytes.fromhex(item[2])
        if op == 'time':
            return ids['cb.play.time'], i64(item[1]) + i64(item[2])
        if op == 'disconnect':
            return ids['cb.play.disconnect'], string(item[1])
        if op == 'frame':
            return item[1], bytes.fromhex(item[2])
        raise ValueError('bad play item %r' % (item,))

    def release(self, app, out_threshold='same'):
        """Called from an event: let a script waiting at ['await'] go on,
        optionally switching the framing mode both ways first."""
        if out_threshold != 'same':
            app.out_threshold = out_threshold
            app.deframer.threshold = out_threshold
        app.released = True
        if app.state == 'play':
            self._run_play(app)

    def inject(self, app, item):
        """Send one extra play item now (called from an event)."""
        if app.state in ('play', 'paused') and not app.conn.server_closed:
            pid, body = self.encode_play(app, item)
            self._send(app, pid, body, item[0], item)
            return True
        return False

    def _run_play(self, app):
        items = app.beh.get('play') or []
        while app.play_pc < len(items) and app.state == 'play':
            item = items[app.play_pc]
            op = item[0]
            if op == 'expect':
                # wait until n serverbound play frames have arrived
                if app.play_frames < item[1]:
                    return
                app.play_pc += 1
                continue
            if op == 'await':
                # hold the script until the harness releases it
                if not getattr(app, 'released', False):
                    return
                app.play_pc += 1
                continue
            if op == 'pause':
                app.play_pc += 1
                app.state = 'paused'

                def resume(app=app):
                    if app.state == 'paused':
                        app.state = 'play'
                        self._run_play(app)
                self.sim.after(item[1], resume, 'srv-pause')
                return
            app.play_pc += 1
            if op == 'close':
                self._close(app)
                app.state = 'dead'
                return
            if op == 'rst':
                self.sim.stat('fault.rst')
                app.conn.server_rst()
                app.state = 'dead'
                return
            if op == 'raw':
                self._send_raw(app, bytes.fromhex(item[1]), 'raw')
                continue
            if op == 'compress':
                # play-state Set Compression (protocol 47 only): sent in the
                # current framing, both directions switch with it - like a
                # vanilla server, which installs its codec right after the
                # packet (so the script must not have the client write
                # anything it could not have written after reading it)
                if app.ids['cb.play.set_compression'] is None:
                    continue
                self._send(app, app.ids['cb.play.set_compression'],
                           varint(item[1]), 'set-compression', item[1])
                app.out_threshold = item[1]
                app.deframer.threshold = item[1]
                continue
            pid, body = self.encode_play(app, item)
            self._send(app, pid, body, op, item)
            if op == 'disconnect':
                if not app.beh.get('keep_open_after_disconnect'):
                    pass   # a vanilla server closes after the client does

"""Deterministic baton-passing scheduler with a virtual clock.

Every participant is a real OS thread that runs only while it holds the
baton.  At each yield point the running thread asks the tape who goes next:
itself (option 0), another runnable thread, or the next pending event
(transport delivery / timer), which may make the virtual clock jump.
"""
import heapq
import threading

RUNNABLE, BLOCKED, DONE, NEW = 'runnable', 'blocked', 'done', 'new'

_tls = threading.local()


def current_simthread():
    return getattr(_tls, 'st', None)


class SimAbort(BaseException):
    """Raised inside every simulated thread when a run is cut."""


class HarnessError(Exception):
    """The machinery (not pyCraft) misbehaved."""


class SimThread(object):
    __slots__ = ('sim', 'tid', 'name', 'fn', 'state', 'sem', 'pred',
                 'deadline', 'timed_out', 'reason', 'os_thread', 'exc',
                 'kind', 'obj', 'result', 'io_ops', 'started_seq',
                 'ended_seq', 'steps', 'poll', 'soft', 'step_budget',
                 'blocked_at')

    def __init__(self, sim, tid, name, fn, kind, obj=None):
        self.sim, self.tid, self.name, self.fn = sim, tid, name, fn
        self.kind, self.obj = kind, obj
        self.state = NEW
        self.sem = threading.Semaphore(0)
        self.pred = None
        self.deadline = None
        self.timed_out = False
        self.reason = ''
        self.exc = None
        self.result = None
        self.io_ops = 0
        self.poll = False
        self.soft = False
        self.step_budget = None
        self.blocked_at = 0
        self.steps = 0
        self.started_seq = None
        self.ended_seq = None
        self.os_thread = None

    def __repr__(self):
        return '<T%d %s %s>' % (self.tid, self.name, self.state)


class Sim(object):
    def __init__(self, tape, max_steps=200000, max_vtime_us=60 * 10**6,
                 trace=False):
        self.tape = tape
        self.threads = []
        self.current = None
        self.now = 0                      # virtual microseconds
        self.events = []                  # heap of (time, n, fn, label)
        self.stall = None                 # {'api', 'at', 'us'} thread-stall plan
        self._evn = 0
        self.seq = 0                      # global event sequence number
        self.steps = 0
        self.max_steps = max_steps
        self.max_vtime_us = max_vtime_us
        self.aborting = False
        self.harness_fault = None
        self.end_state = None             # done / deadlock / step-cap / ...
        self.end_detail = None
        self.in_sched = False
        self.dirty = True
        self.finished = threading.Event()
        self.history = []                 # (seq, tid, kind, detail, vtime)
        self.digest = 0
        self.trace = [] if trace else None
        self.stats = {}
        self.switches = 0
        self.sched_sig = 0                # hash of context-switch sequence
        self.harness_error = None
        self.on_invariant = None          # optional callable after events
        self.violations = []              # (signature, detail)
        self.fail_fast = None             # signature that cut the run
        self.line_mute = False
        self.pollers = 0
        self.poisoned = False
        self.last_progress_step = 0   # API call, bytes consumed, frame seen

    # ------------------------------------------------------------ logging
    PROGRESS_KINDS = frozenset(['call', 'ret', 'read', 'srv-frame',
                                'thread-start', 'thread-end', 'connect',
                                'listener'])

    def log(self, kind, detail=None):
        """Record an I/O- or API-level event in the history; returns seq."""
        self.seq += 1
        if kind in self.PROGRESS_KINDS and not self.aborting:
            self.last_progress_step = self.steps
        cur = self.current
        tid = cur.tid if cur is not None and not self.in_sched else -1
        self.history.append((self.seq, tid, kind, detail, self.now))
        self._mix(hash_small((tid, kind, repr(detail), self.steps)))
        if self.trace is not None:
            self.trace.append((self.seq, self.now, tid, kind, detail))
        return self.seq

    def _mix(self, v):
        self.digest = ((self.digest * 1000003) ^ v) & 0xFFFFFFFFFFFFFFFF

    def stat(self, key, n=1):
        self.stats[key] = self.stats.get(key, 0) + n

    def violate(self, signature, detail=None, fatal=False):
        self.violations.append((signature, detail, self.seq))
        if fatal:
            self.fail_fast = signature
            self.abort('violation', signature)

    def unsupported(self, what):
        """The code under test reached for something the simulated standard
        library does not model: the run cannot be judged (harness error, never
        a verdict about the property)."""
        if self.harness_fault is None:
            self.harness_fault = 'unsupported in simulation: %s' % what
        self.abort('harness-fault', self.harness_fault)
        raise HarnessError(self.harness_fault)

    # ------------------------------------------------------------ events
    def after(self, delay_us, fn, label=''):
        self._evn += 1
        heapq.heappush(self.events, (self.now + delay_us, self._evn, fn,
                                     label))

    def at(self, time_us, fn, label=''):
        self._evn += 1
        heapq.heappush(self.events, (max(time_us, self.now), self._evn, fn,
                                     label))

    EARLY_HORIZON_US = 60000

    def _next_time(self, soft=True):
        t = self.events[0][0] if self.events else None
        for th in self.threads:
            if th.state == BLOCKED and th.deadline is not None and \
                    (soft or not th.soft):
                if t is None or th.deadline < t:
                    t = th.deadline
        if not soft and t is not None and \
                t > self.now + self.EARLY_HORIZON_US:
            # a runnable thread is only ever overtaken by events that are
            # close in time; far-future timers fire when the system is idle
            return None
        return t

    def _fire_next(self, soft=True):
        """Advance to the next event or deadline and process it.  Soft
        deadlines (harness waits) only fire when nothing else can run."""
        t = self._next_time(soft)
        if t is None:
            return False
        if not soft:
            self.stat('event-first')
        if t > self.now:
            self.now = t
            if self.now > self.max_vtime_us:
                self.abort('vtime-cap')
        # deadlines first (deterministic: by tid), then one event
        fired = False
        for th in self.threads:
            if th.state == BLOCKED and th.deadline is not None and \
                    th.deadline <= self.now:
                th.timed_out = True
                th.state = RUNNABLE
                th.pred = None
                th.deadline = None
                fired = True
        if not fired and self.events and self.events[0][0] <= self.now:
            _t, _n, fn, label = heapq.heappop(self.events)
            prev = self.in_sched
            self.in_sched = True
            try:
                fn()
            except SimAbort:
                raise
            except BaseException as e:   # a stub failed: never a result
                import traceback
                self.harness_error = 'event %s raised %r\n%s' % (
                    label, e, traceback.format_exc())
                self.in_sched = prev
                self.abort('harness-error')
            finally:
                self.in_sched = prev
            self._mix(hash_small(('ev', label)))
            if self.on_invariant is not None:
                self.in_sched = True
                try:
                    self.on_invariant()
                finally:
                    self.in_sched = prev
        self.dirty = True
        return True

    # ------------------------------------------------------------ threads
    def spawn(self, fn, name, kind='user', obj=None):
        st = SimThread(self, len(self.threads), name, fn, kind, obj)
        self.threads.append(st)
        st.state = RUNNABLE
        st.started_seq = self.seq

        def body():
            _tls.st = st
            st.sem.acquire()
            try:
                if self.aborting:
                    raise SimAbort()
                self.current = st
                st.result = fn()
            except SimAbort:
                pass
            except BaseException as e:
                st.exc = e
            finally:
                _tls.st = None
                st.state = DONE
                st.ended_seq = self.seq
                self.dirty = True
                if not self.aborting:
                    try:
                        self._reschedule(st, exiting=True)
                    except SimAbort:
                        pass
                self._maybe_finished()

        th = threading.Thread(target=body, name='sim-' + name, daemon=True)
        st.os_thread = th
        th.start()
        return st

    def _maybe_finished(self):
        if all(t.state == DONE for t in self.threads):
            if self.end_state is None:
                self.end_state = 'done'
            self.finished.set()

    def _wake_blocked(self):
        if not self.dirty:
            if self.pollers:
                for th in self.threads:
                    if th.state == BLOCKED and th.poll:
                        if th.pred():
                            th.state = RUNNABLE
                            th.pred = None
                            th.deadline = None
                            th.timed_out = False
                        elif th.step_budget is not None and \
                                self.steps > th.step_budget:
                            self._soft_timeout(th)
            return
        self.dirty = False
        for th in self.threads:
            if th.state == BLOCKED and th.pred is not None:
                if th.pred():
                    th.state = RUNNABLE
                    th.pred = None
                    th.deadline = None
                    th.timed_out = False
                elif th.soft and th.step_budget is not None and \
                        self.steps > th.step_budget:
                    self._soft_timeout(th)

    def _soft_timeout(self, th):
        th.state = RUNNABLE
        th.pred = None
        th.deadline = None
        th.timed_out = True
        self.stat('harness-wait-gave-up')

    def _switch_to(self, me, target):
        """Hand the baton to target; park me (unless exiting)."""
        self.switches += 1
        self.sched_sig = ((self.sched_sig * 31) ^ (target.tid + 7 *
                          (me.tid if me is not None else 0) +
                          131 * (self.steps & 0xFF))) & 0xFFFFFFFFFFFF
        self._mix(target.tid + 17 + (self.steps << 8))
        self.current = target
        target.sem.release()

    def _park(self, me):
        me.sem.acquire()
        if self.aborting:
            raise SimAbort()
        self.current = me

    def yield_point(self, key=0):
        """A pre-emption point in the running thread.  key (an int) is
        folded into the run digest."""
        if self.aborting:
            raise SimAbort()
        if self.in_sched:
            return
        me = self.current
        if me is None:
            # set-up code running before the first simulated thread (a
            # Connection being built and configured): nothing to schedule
            return
        self.steps += 1
        me.steps += 1
        st = self.stall
        if st is not None and st.get('tid') == me.tid:
            # fault: this thread is descheduled for a while (a stalled
            # thread, e.g. swapped out) at its n-th pre-emption point inside
            # the API call that armed the plan
            st['count'] += 1
            if st['count'] > st['at']:
                st['tid'] = None
                self.stat('fault.thread-stall')
                self.log('thread-stall', st['us'])
                self.block(lambda: False, st['us'], reason='stalled')
                return
        # NB: line numbers are deliberately not folded into the digest: the
        # order of line events inside `for cls in <set of classes>` loops
        # depends on object addresses, although their number does not.
        if self.steps > self.max_steps:
            self.abort('step-cap')
        self._wake_blocked()
        others = None
        for t in self.threads:
            if t.state == RUNNABLE and t is not me:
                if others is None:
                    others = [t]
                else:
                    others.append(t)
        has_ev = self._next_time(False) is not None
        if others is None and not has_ev:
            return
        n_oth = len(others) if others else 0
        if n_oth:
            c = self.tape.choose(1 + n_oth, 'sched',
                                 [me.tid] + [t.tid for t in others])
            if c:
                target = others[c - 1]
                self.stat('preempt')
                self._switch_to(me, target)
                self._park(me)
                return
        if has_ev:
            c = self.tape.choose(2, 'event')
            if c:
                self._fire_next(soft=False)
                self._wake_blocked()

    def _has_deadline(self):
        for th in self.threads:
            if th.state == BLOCKED and th.deadline is not None \
                    and not th.soft:
                return True
        return False

    def block(self, pred, timeout_us=None, reason='', poll=False,
              patient=None, budget=True):
        """Block the running thread until pred() or the deadline.
        Returns True if woken by pred, False on time-out.  poll=True: pred
        depends on non-simulator state and is re-evaluated at every step."""
        if self.aborting:
            raise SimAbort()
        me = self.current
        if pred():
            return True
        if patient is None:
            patient = poll
        if poll and not me.poll:
            me.poll = True
            self.pollers += 1
        me.state = BLOCKED
        me.pred = pred
        me.reason = reason
        me.timed_out = False
        self._blockn = getattr(self, '_blockn', 0) + 1
        me.blocked_at = self._blockn
        if patient:
            # a harness wait: it never expires on the virtual clock (a slow
            # thread is legal); it gives up when the system is quiescent, or
            # after a generous number of scheduler steps without success
            me.soft = True
            me.deadline = None
            if budget is True:
                me.step_budget = self.steps + max(self.max_steps // 3, 20000)
            elif budget:
                me.step_budget = self.steps + int(budget)
            else:
                me.step_budget = 10**15
        else:
            me.soft = False
            me.step_budget = None
            me.deadline = None if timeout_us is None \
                else self.now + timeout_us
        self._reschedule(me)
        return not me.timed_out

    def _reschedule(self, me, exiting=False):
        """me cannot continue (blocked or done): pick who runs next."""
        while True:
            self.dirty = True
            self._wake_blocked()
            runnable = [t for t in self.threads if t.state == RUNNABLE]
            if runnable:
                c = self.tape.choose(len(runnable), 'sched',
                                     [t.tid for t in runnable]) \
                    if len(runnable) > 1 else 0
                target = runnable[c]
                if target is me:
                    return
                self._switch_to(me, target)
                if not exiting:
                    self._park(me)
                return
            if all(t.state == DONE for t in self.threads):
                # drain in-flight transport events so the peer sees the end
                n = 0
                while self.events and n < 200000:
                    self._fire_next()
                    n += 1
                return
            if not self._fire_next():
                waiters = [t for t in self.threads
                           if t.state == BLOCKED and t.soft and
                           t.step_budget is not None]
                if waiters:
                    # true quiescence: nothing can run and nothing is
                    # scheduled - the most recently started harness wait
                    # gives up (older waits usually wait for that thread)
                    # (a wait without a step budget - the coordinator's
                    # wait for the user threads - is the last to give up)
                    finite = [t for t in waiters if t.step_budget < 10**15]
                    self._soft_timeout(max(finite or waiters,
                                           key=lambda t: t.blocked_at))
                    continue
                self.abort('deadlock', [(t.name, t.reason)
                                        for t in self.threads
                                        if t.state == BLOCKED])

    def abort(self, state, detail=None):
        if not self.aborting:
            self.aborting = True
            self.end_state = state
            self.end_detail = detail
            for t in self.threads:
                t.sem.release()
                t.sem.release()
        raise SimAbort()

    # ------------------------------------------------------------ driver
    def run(self, wall_timeout=60.0):
        """Release the first thread and wait for the run to end."""
        if not self.threads:
            self.end_state = 'done'
            return
        try:
            self._wake_blocked()
            runnable = [t for t in self.threads if t.state == RUNNABLE]
            c = self.tape.choose(len(runnable), 'sched') \
                if len(runnable) > 1 else 0
            self.current = runnable[c]
            runnable[c].sem.release()
        except SimAbort:
            pass
        done = self.finished.wait(wall_timeout)
        slices = 0
        while not done and slices < 6:
            # still making simulated progress (slow machine, long run)?
            before = self.steps
            done = self.finished.wait(wall_timeout / 3.0)
            slices += 1
            if not done and self.steps == before:
                break
        if not done:
            # The run hangs in REAL time.  If the thread holding the baton is
            # busy inside library code that has no yield point (an endless
            # pure-Python loop), that is a finding about the library (the
            # thread neither terminates nor blocks), not a harness failure.
            stuck = self._stuck_in_library()
            self.aborting = True
            if self.end_state is None:
                self.end_state = 'real-hang' if stuck else 'wall-timeout'
                self.end_detail = stuck
            for t in self.threads:
                t.sem.release()
                t.sem.release()
            self.finished.wait(2.0 if stuck else 5.0)
        for t in self.threads:
            t.os_thread.join(0.2 if self.end_state == 'real-hang' else 5.0)
            if t.os_thread.is_alive():
                if self.end_state == 'real-hang':
                    self.poisoned = True     # worker must exit after this
                else:
                    self.harness_error = (self.harness_error or '') + \
                        ' leaked OS thread %s' % t.name
        if self.end_state == 'wall-timeout':
            self.harness_error = (self.harness_error or '') + ' wall-timeout'

    def _stuck_in_library(self):
        """If the running simulated thread sits in repository code (not in a
        simulator primitive), return 'file:function:line' of its innermost
        repository frame; sampled twice to exclude a thread that is merely
        slow."""
        import sys
        import os
        import time
        root = os.path.realpath(os.environ.get('VERIF_REPO', '/repo'))
        here = os.path.dirname(os.path.abspath(__file__))

        def sample():
            cur = self.current
            if cur is None or cur.os_thread is None:
                return None
            fr = sys._current_frames().get(cur.os_thread.ident)
            if fr is None:
                return None
            inner = fr
            # innermost frame must not be a simulator primitive
            if os.path.abspath(inner.f_code.co_filename).startswith(here):
                return None
            f = fr
            while f is not None:
                fn = os.path.realpath(f.f_code.co_filename)
                if fn.startswith(root + os.sep):
                    return '%s:%s' % (os.path.relpath(fn, root),
                                      f.f_code.co_name), cur.steps
                f = f.f_back
            return None
        a = sample()
        if a is None:
            return None
        time.sleep(1.0)
        b = sample()
        if b is None or b[1] != a[1]:
            return None          # it is making simulated progress
        return b[0]


def hash_small(obj):
    """Deterministic small hash independent of PYTHONHASHSEED."""
    import zlib
    return zlib.crc32(repr(obj).encode())

"""Independent Minecraft wire codec (shares no code with pyCraft).

Written from the protocol description: VarInt, length framing, the compressed
frame format, AES-128-CFB8 built from single-block AES-ECB calls, raw RSA
decryption with PKCS#1 v1.5 type-2 un-padding, Java's signed hex digest.
"""
import struct
import zlib
import hashlib


class WireError(Exception):
    pass


class NeedMore(Exception):
    pass


# ------------------------------------------------------------------ scalars
def varint(n):
    """Encode n (two's complement 32 bit for negatives) as VarInt."""
    if n < 0:
        n += 1 << 32
    out = bytearray()
    while True:
        b = n & 0x7F
        n >>= 7
        if n:
            out.append(b | 0x80)
        else:
            out.append(b)
            return bytes(out)


def varlong(n):
    if n < 0:
        n += 1 << 64
    out = bytearray()
    while True:
        b = n & 0x7F
        n >>= 7
        if n:
            out.append(b | 0x80)
        else:
            out.append(b)
            return bytes(out)


def read_varint(buf, pos, max_bytes=5):
    """-> (value, newpos); NeedMore if buf ends early."""
    val = 0
    for i in range(max_bytes):
        if pos + i >= len(buf):
            raise NeedMore()
        b = buf[pos + i]
        val |= (b & 0x7F) << (7 * i)
        if not b & 0x80:
            return val, pos + i + 1
    raise WireError('VarInt too long')


def string(s):
    b = s.encode('utf-8')
    return varint(len(b)) + b


def read_string(buf, pos):
    n, pos = read_varint(buf, pos)
    if pos + n > len(buf):
        raise WireError('string overruns frame')
    return bytes(buf[pos:pos + n]).decode('utf-8'), pos + n


def bytearr(b):
    return varint(len(b)) + bytes(b)


def read_bytearr(buf, pos):
    n, pos = read_varint(buf, pos)
    if pos + n > len(buf):
        raise WireError('byte array overruns frame')
    return bytes(buf[pos:pos + n]), pos + n


def i64(n):
    return struct.pack('>q', n)


def u16(n):
    return struct.pack('>H', n)


def f64(x):
    return struct.pack('>d', x)


def f32(x):
    return struct.pack('>f', x)


def i8(n):
    return struct.pack('>b', n)


def boolean(b):
    return b'\x01' if b else b'\x00'


def signed32(n):
    return n - (1 << 32) if n >= 1 << 31 else n


# ------------------------------------------------------------------ framing
def frame(payload, threshold=None):
    """payload = id varint + body.  threshold None: compression not enabled.
    Otherwise the vanilla format: data-length 0 (uncompressed) when the payload
    is shorter than the threshold, else data-length + zlib."""
    payload = bytes(payload)
    if threshold is None:
        return varint(len(payload)) + payload
    if threshold >= 0 and len(payload) >= threshold:
        inner = varint(len(payload)) + zlib.compress(payload)
    else:
        inner = b'\x00' + payload
    return varint(len(inner)) + inner


def frame_forced(payload, compressed):
    """Compressed-format frame with an explicit choice (vanilla clients accept
    uncompressed-below-threshold and compressed-at-or-above only, but pyCraft
    must accept either as long as the format is well-formed)."""
    payload = bytes(payload)
    if compressed:
        inner = varint(len(payload)) + zlib.compress(payload)
    else:
        inner = b'\x00' + payload
    return varint(len(inner)) + inner


class Deframer(object):
    """Incremental parser of a (decrypted) serverbound byte stream."""

    def __init__(self):
        self.buf = bytearray()
        self.threshold = None      # None: plain frames
        self.frames = []           # (id, body bytes, meta)
        self.error = None
        self.consumed = 0

    def feed(self, data):
        """Append data; returns list of newly completed (id, body, meta)."""
        self.buf += data
        out = []
        while True:
            fr = self.next()
            if fr is None:
                return out
            out.append(fr)

    def next(self):
        """Parse exactly one frame from the buffer, or None."""
        if self.error:
            return None
        try:
            length, p = read_varint(self.buf, 0)
        except NeedMore:
            return None
        except WireError as e:
            self.error = 'bad length prefix: %s' % e
            return None
        if length > (1 << 21):
            self.error = 'frame length %d too large' % length
            return None
        if len(self.buf) < p + length:
            return None
        body = bytes(self.buf[p:p + length])
        raw_len = p + length
        del self.buf[:raw_len]
        start = self.consumed
        self.consumed += raw_len
        meta = {'raw_len': raw_len, 'threshold': self.threshold,
                'start': start}
        try:
            if self.threshold is not None:
                dlen, q = read_varint(body, 0)
                meta['data_len'] = dlen
                if dlen == 0:
                    payload = body[q:]
                else:
                    payload = zlib.decompress(body[q:])
                    if len(payload) != dlen:
                        raise WireError('inflated %d != declared %d'
                                        % (len(payload), dlen))
            else:
                payload = body
            meta['payload_len'] = len(payload)
            pid, q = read_varint(payload, 0)
        except (WireError, NeedMore, zlib.error) as e:
            self.error = 'bad frame: %r' % (e,)
            return None
        item = (pid, payload[q:], meta)
        self.frames.append(item)
        return item


# ------------------------------------------------------------------ AES-CFB8
class CFB8(object):
    """AES-128-CFB8 from single-block ECB encryptions (mode logic is ours)."""

    def __init__(self, key, iv, decrypt=False):
        from cryptography.hazmat.primitives.ciphers import (
            Cipher, algorithms, modes)
        self._ecb = Cipher(algorithms.AES(bytes(key)), modes.ECB()).encryptor()
        self.reg = bytearray(iv)
        self.decrypt = decrypt

    def update(self, data):
        out = bytearray(len(data))
        reg = self.reg
        enc = self._ecb.update
        dec = self.decrypt
        for i, b in enumerate(data):
            ks = enc(bytes(reg))[0]
            o = b ^ ks
            out[i] = o
            c = b if dec else o
            del reg[0]
            reg.append(c)
        return bytes(out)


# ------------------------------------------------------------------ RSA
def rsa_decrypt_pkcs1v15(c, n, d):
    """Raw RSA + PKCS#1 v1.5 type-2 un-padding; returns message or None."""
    k = (n.bit_length() + 7) // 8
    if len(c) != k:
        return None
    m = pow(int.from_bytes(c, 'big'), d, n)
    em = m.to_bytes(k, 'big')
    if em[0] != 0 or em[1] != 2:
        return None
    try:
        sep = em.index(b'\x00', 2)
    except ValueError:
        return None
    if sep < 10:
        return None
    if 0 in em[2:sep]:
        return None
    return em[sep + 1:]


def java_hex_digest(server_id, secret, pubkey_der):
    h = hashlib.sha1()
    h.update(server_id.encode('utf-8'))
    h.update(secret)
    h.update(pubkey_der)
    dg = h.digest()
    n = int.from_bytes(dg, 'big')
    if dg[0] & 0x80:
        n -= 1 << 160
        return '-' + '%x' % (-n)
    return '%x' % n

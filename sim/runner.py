"""Seeded search driver: workers, violation shrinking, replay, evidence."""
import os
import sys
import json
import time
import hashlib
import tempfile
import shutil
import traceback
import faulthandler
import multiprocessing

from .tape import Tape, Policy, make_rng
from .sched import HarnessError

VERIF = os.path.dirname(os.path.dirname(os.path.abspath(__file__)))


class RunResult(object):
    """Outcome of one simulated run (filled in by the property module)."""

    def __init__(self):
        self.violations = []      # [(signature, detail)]
        self.obligations = 0      # oracle obligations evaluated
        self.faults = {}          # fault kind -> times fired
        self.probes = {}          # reach probe -> count
        self.digest = 0
        self.sched_sig = 0
        self.state_sigs = ()      # iterable of hashable state signatures
        self.steps = 0
        self.vtime_us = 0
        self.nontrivial = False
        self.end_state = None
        self.summary = None       # small JSON-able description
        self.tape = None
        self.poisoned = False    # an unkillable OS thread is left behind


class Agg(object):
    def __init__(self):
        self.runs = 0
        self.obligations = 0
        self.steps = 0
        self.vtime_us = 0
        self.faults = {}
        self.probes = {}
        self.digests = set()
        self.nontrivial_digests = set()
        self.sched_sigs = set()
        self.state_sigs = set()
        self.end_states = {}
        self.samples = []
        self.violations = []      # [(index, signature, detail, scenario, tape)]
        self.harness_errors = []
        self.cut_short = False
        self.sig_counts = {}

    def add(self, index, res, scenario):
        self.runs += 1
        self.obligations += res.obligations
        self.steps += res.steps
        self.vtime_us += res.vtime_us
        for k, v in res.faults.items():
            self.faults[k] = self.faults.get(k, 0) + v
        for k, v in res.probes.items():
            self.probes[k] = self.probes.get(k, 0) + v
        self.digests.add(res.digest)
        if res.nontrivial:
            self.nontrivial_digests.add(res.digest)
        self.sched_sigs.add(res.sched_sig)
        for s in res.state_sigs:
            self.state_sigs.add(s)
        self.end_states[res.end_state] = \
            self.end_states.get(res.end_state, 0) + 1
        if res.summary is not None and res.nontrivial:
            # keep the 3 runs with the smallest index hash: spread over the
            # whole plan instead of the first few cases
            key = hashlib.sha256(str(index).encode()).hexdigest()[:8]
            self.samples.append([key, index, res.summary])
            self.samples.sort(key=lambda x: x[0])
            del self.samples[3:]
        for sig, detail in res.violations:
            n = self.sig_counts.get(sig, 0)
            self.sig_counts[sig] = n + 1
            if n < 2 and len(self.sig_counts) <= 40:
                self.violations.append((index, sig, detail, scenario,
                                        res.tape))

    def to_json(self):
        return {
            'runs': self.runs, 'obligations': self.obligations,
            'steps': self.steps, 'vtime_us': self.vtime_us,
            'faults': self.faults, 'probes': self.probes,
            'digests': sorted(self.digests),
            'nontrivial_digests': sorted(self.nontrivial_digests),
            'sched_sigs': sorted(self.sched_sigs),
            'state_sigs': sorted(map(str, self.state_sigs)),
            'end_states': self.end_states, 'samples': self.samples,
            'violations': self.violations,
            'harness_errors': self.harness_errors,
            'cut_short': self.cut_short,
        }


def run_case(prop, seed, index, tier):
    """Execute case `index` of the plan; returns (scenario, RunResult)."""
    scenario = prop.scenario_for(seed, index, tier)
    scenario['_prop'] = prop.ID
    tape = prop.tape_for(scenario, seed, index) \
        if hasattr(prop, 'tape_for') else None
    if tape is None:
        rng = make_rng('tape', prop.ID, seed, index)
        policy = prop.policy(make_rng('policy', prop.ID, seed, index),
                             scenario)
        tape = Tape(rng, policy)
    res = prop.execute(scenario, tape)
    res.tape = tape.sparse()
    return scenario, res


def replay_case(prop, scenario, tape_sparse):
    scenario['_prop'] = prop.ID
    tape = Tape(replay=tape_sparse)
    res = prop.execute(scenario, tape)
    res.tape = tape.sparse()
    return res


def _worker(prop_id, seed, tier, wno, nworkers, total, deadline, outpath):
    faulthandler.enable()
    faulthandler.dump_traceback_later(max(deadline - time.time(), 1) + 120,
                                      exit=True)
    try:
        # a garbage length taken for a frame size must end in a MemoryError
        # inside the code under test, not in the kernel killing the worker
        import resource
        lim = int(os.environ.get('VERIF_WORKER_AS_LIMIT', 3 << 30))
        resource.setrlimit(resource.RLIMIT_AS, (lim, lim))
    except Exception:
        pass
    from props import load
    prop = load(prop_id)
    agg = Agg()
    try:
        for index in range(wno, total, nworkers):
            if time.time() > deadline:
                agg.cut_short = True
                break
            try:
                scenario, res = run_case(prop, seed, index, tier)
            except HarnessError as e:
                agg.harness_errors.append('case %d: %s' % (index, e))
                if len(agg.harness_errors) > 3:
                    break
                continue
            agg.add(index, res, scenario)
            if getattr(res, 'poisoned', False):
                # a library thread spins for real and cannot be killed:
                # report what we have and leave the process
                agg.cut_short = True
                with open(outpath + '.tmp', 'w') as f:
                    json.dump(agg.to_json(), f, default=repr)
                os.rename(outpath + '.tmp', outpath)
                os._exit(0)
    except BaseException:
        agg.harness_errors.append('worker %d crashed: %s'
                                  % (wno, traceback.format_exc()))
    with open(outpath + '.tmp', 'w') as f:
        json.dump(agg.to_json(), f)
    os.rename(outpath + '.tmp', outpath)


def signature_hash(sig):
    return hashlib.sha256(sig.encode()).hexdigest()[:10]


def load_known():
    p = os.path.join(VERIF, 'known_findings.json')
    if not os.path.exists(p):
        return []
    return json.load(open(p)).get('findings', [])


def shrink(prop, scenario, tape_sparse, signature, budget_s=45.0):
    """Alternate tape ddmin and structural scenario shrinking."""
    t_end = time.time() + budget_s

    def fails(sc, tp):
        try:
            r = replay_case(prop, sc, tp)
        except Exception:
            # a shrunk candidate the harness cannot run is simply not a
            # smaller failing case
            return None
        for sig, _d in r.violations:
            if sig == signature:
                return r
        return None

    best_sc, best_tp = scenario, list(tape_sparse)
    r0 = fails(best_sc, best_tp)
    if r0 is None:
        return scenario, tape_sparse, False
    best_tp = r0.tape
    changed = True
    while changed and time.time() < t_end:
        changed = False
        # -- tape: drop chunks of non-zero entries
        n = len(best_tp)
        chunk = max(n // 2, 1)
        while chunk >= 1 and n and time.time() < t_end:
            i = 0
            progressed = False
            while i < len(best_tp) and time.time() < t_end:
                cand = best_tp[:i] + best_tp[i + chunk:]
                r = fails(best_sc, cand)
                if r is not None:
                    best_tp = r.tape if len(r.tape) <= len(cand) else cand
                    changed = progressed = True
                else:
                    i += chunk
            if chunk == 1 and not progressed:
                break
            chunk = max(chunk // 2, 1) if chunk > 1 else \
                (1 if progressed else 0)
            if chunk == 0:
                break
        # -- tape: lower values
        for j in range(len(best_tp)):
            if time.time() > t_end:
                break
            p, v = best_tp[j]
            if v > 1:
                cand = list(best_tp)
                cand[j] = [p, 1]
                if fails(best_sc, cand) is not None:
                    best_tp = cand
                    changed = True
        # -- scenario
        again = True
        while again and time.time() < t_end:
            again = False
            try:
                cands = list(prop.shrink_scenario(best_sc))
            except Exception as e:     # a shrinker bug must not cost the
                sys.stderr.write(      # violation its report
                    'shrinker of %s failed (%r); reporting the case '
                    'unshrunk further\n' % (prop.ID, e))
                break
            for cand_sc in cands:
                if time.time() > t_end:
                    break
                r = fails(cand_sc, best_tp)
                if r is not None:
                    best_sc = cand_sc
                    best_tp = r.tape
                    changed = again = True
                    break
                r = fails(cand_sc, [])
                if r is not None:
                    best_sc = cand_sc
                    best_tp = r.tape
                    changed = again = True
                    break
    return best_sc, best_tp, True


def write_replay(prop, signature, scenario, tape_sparse, detail, seed, index,
                 minimized):
    rdir = os.environ.get('VERIF_REPLAY_DIR') or os.path.join(VERIF,
                                                              'replays')
    os.makedirs(rdir, exist_ok=True)
    path = os.path.join(rdir, '%s-%s.json'
                        % (prop.ID, signature_hash(signature)))
    with open(path, 'w') as f:
        json.dump({'property': prop.ID, 'signature': signature,
                   'seed': seed, 'index': index, 'minimized': minimized,
                   'detail': detail, 'scenario': scenario,
                   'tape': tape_sparse}, f, indent=1, default=repr)
    return path


def replay_in_fresh_process(prop_id, path):
    """Re-execute a replay file in a new interpreter; returns signatures."""
    import subprocess
    env = dict(os.environ)
    env['PYTHONHASHSEED'] = '0'
    out = subprocess.run(
        [sys.executable, '-W', 'ignore', os.path.join(VERIF, 'check.py'),
         prop_id, '--replay', path, '--raw'],
        capture_output=True, text=True, env=env, timeout=300)
    sigs = []
    for line in out.stdout.splitlines():
        if line.startswith('SIG '):
            sigs.append(line[4:].strip())
    return sigs, out


def call_in_child(fn, *args):
    ctx = multiprocessing.get_context('fork')
    r, w = ctx.Pipe(False)

    def target():
        try:
            w.send(('ok', fn(*args)))
        except BaseException as e:
            w.send(('err', repr(e) + traceback.format_exc()))
    p = ctx.Process(target=target)
    p.start()
    if not r.poll(300):
        p.kill()
        raise HarnessError('child computation timed out')
    kind, val = r.recv()
    p.join()
    if kind != 'ok':
        raise HarnessError('child computation failed: %s' % val)
    return val


def run_check(prop, tier, seed, nworkers, total=None, wall_cap=None,
              write_evidence=True, quiet=False):
    """Run a property's plan; returns exit code."""
    t0 = time.time()
    if total is None:
        # computed in a forked child: the parent must not touch OpenSSL (or
        # start threads) before forking its workers
        total = call_in_child(prop.total, tier, seed) \
            if hasattr(prop, 'total') else prop.RUNS[tier]
    wall_cap = wall_cap or prop.WALL_CAP[tier]
    deadline = t0 + wall_cap
    nworkers = max(1, min(nworkers, total))
    tmpdir = tempfile.mkdtemp(prefix='dst-%s-' % prop.ID, dir=os.environ.get(
        'VERIF_SCRATCH', tempfile.gettempdir()))
    ctx = multiprocessing.get_context('fork')
    procs = []
    try:
        for w in range(nworkers):
            out = os.path.join(tmpdir, 'w%d.json' % w)
            p = ctx.Process(target=_worker, args=(
                prop.ID, seed, tier, w, nworkers, total, deadline, out))
            p.start()
            procs.append((p, out))
        aggs = []
        herr = []
        for p, out in procs:
            p.join(max(deadline - time.time(), 0) + 180)
            if p.is_alive():
                p.kill()
                p.join()
                herr.append('worker timed out (killed)')
                continue
            if not os.path.exists(out):
                herr.append('worker exited %s without result' % p.exitcode)
                continue
            aggs.append(json.load(open(out)))
    finally:
        shutil.rmtree(tmpdir, ignore_errors=True)
    wall = time.time() - t0
    # merge
    m = {'runs': 0, 'obligations': 0, 'steps': 0, 'vtime_us': 0,
         'faults': {}, 'probes': {}, 'end_states': {}}
    digests, nt, ss, sts = set(), set(), set(), set()
    samples, violations = [], []
    cut_short = False
    for a in aggs:
        for k in ('runs', 'obligations', 'steps', 'vtime_us'):
            m[k] += a[k]
        for k in ('faults', 'probes', 'end_states'):
            for kk, v in a[k].items():
                m[k][kk] = m[k].get(kk, 0) + v
        digests.update(a['digests'])
        nt.update(a['nontrivial_digests'])
        ss.update(a['sched_sigs'])
        sts.update(a['state_sigs'])
        samples.extend(a['samples'])
        violations.extend(a['violations'])
        herr.extend(a['harness_errors'])
        cut_short = cut_short or a['cut_short']
    violations.sort(key=lambda v: v[0])
    known = [k for k in load_known() if k.get('property') == prop.ID]
    known_sigs = {k['signature']: k for k in known
                  if k.get('status') == 'known'}
    exit_code = 0
    reported = set()
    lines = []
    n_viol = 0
    for index, sig, detail, scenario, tape in violations:
        if sig in reported:
            continue
        reported.add(sig)
        if sig in known_sigs:
            lines.append('KNOWN-FINDING: property=%s %s'
                         % (prop.ID, known_sigs[sig].get('description', sig)))
            continue
        n_viol += 1
        budget = (45.0 if tier == 'quick' else 120.0) if n_viol <= 3 else \
            (10.0 if n_viol <= 6 else 0.0)
        if '/real-hang' in sig:
            budget = 0.0          # every attempt would cost a wall time-out
        sc2, tp2, ok = shrink(prop, scenario, tape, sig, budget_s=budget) \
            if budget else (scenario, tape, False)
        path = write_replay(prop, sig, sc2, tp2, detail, seed, index, ok)
        sigs, _out = replay_in_fresh_process(prop.ID, path)
        note = '' if sig in sigs else ' (WARNING: fresh-process replay ' \
            'gave %r)' % (sigs,)
        lines.append('VIOLATION property=%s replay=%s signature=%s%s'
                     % (prop.ID, path, sig, note))
        exit_code = 1
    # stored replays: a 'known' finding is demonstrated on every run; a
    # 'fixed' one is a regression scenario and suppresses nothing
    regress = 0
    for k in known:
        if not k.get('replay'):
            continue
        path = os.path.join(VERIF, k['replay'])
        sigs, out = replay_in_fresh_process(prop.ID, path)
        regress += 1
        if out.returncode not in (0, 1):
            herr.append('stored replay %s failed to run: %s'
                        % (k['replay'], out.stdout[-300:] + out.stderr[-300:]))
            continue
        if k.get('status') == 'known':
            if k['signature'] in sigs and k['signature'] not in reported:
                reported.add(k['signature'])
                lines.append('KNOWN-FINDING: property=%s %s'
                             % (prop.ID, k.get('description', '')))
        elif k['signature'] in sigs and k['signature'] not in reported:
            reported.add(k['signature'])
            n_viol += 1
            lines.append('VIOLATION property=%s replay=%s signature=%s '
                         '(regression of a fixed finding)'
                         % (prop.ID, path, k['signature']))
            exit_code = 1
    if herr:
        for h in herr[:5]:
            lines.append('HARNESS-ERROR %s' % h.strip().splitlines()[-1])
        if exit_code == 0:
            exit_code = 2
    if m['runs'] == 0 and exit_code == 0:
        lines.append('HARNESS-ERROR no runs executed')
        exit_code = 2
    for ln in lines:
        print(ln)
    if write_evidence:
        ev = prop.evidence(tier, seed, m, {
            'distinct_digests': len(digests),
            'distinct_nontrivial': len(nt),
            'distinct_schedule_signatures': len(ss),
            'distinct_state_signatures': len(sts),
            'samples': [dict(case_index=i, case=sm) for _k, i, sm in
                        sorted(samples, key=lambda x: x[0])[:5]],
        })
        ev['wall_s'] = round(wall, 2)
        ev['violations'] = n_viol
        cov = ev['coverage']
        cov['runs'] = m['runs']
        cov['runs_per_hour'] = int(m['runs'] / max(wall, 1e-3) * 3600)
        cov['simulated_seconds'] = round(m['vtime_us'] / 1e6, 3)
        cov['scheduler_steps'] = m['steps']
        cov['fault_firings'] = m['faults']
        cov['reach_probes'] = m['probes']
        cov['end_states'] = m['end_states']
        cov['workers'] = nworkers
        cov['planned_runs'] = total
        cov['cut_short_by_wall_cap'] = cut_short
        cov['stored_replays_rerun'] = regress
        cov['known_findings_reported'] = sorted(
            s for s in reported if s in known_sigs)
        os.makedirs(os.path.join(VERIF, 'evidence'), exist_ok=True)
        with open(os.path.join(VERIF, 'evidence', prop.ID + '.json'),
                  'w') as f:
            json.dump(ev, f, indent=1, default=repr)
    if not quiet:
        print('%s tier=%s seed=%d runs=%d/%d wall=%.1fs steps=%d '
              'distinct=%d nontrivial=%d faults=%s exit=%d'
              % (prop.ID, tier, seed, m['runs'], total, wall, m['steps'],
                 len(digests), len(nt), m['faults'], exit_code))
    return exit_code

"""Simulated stand-ins for the parts of `threading` and `time` a pyCraft
module may reach for, and a generic patcher that swaps every reference to
the real `socket`, `select`, `time`, `timeit` and `threading` modules (or to
the usual names imported from them) held by any loaded `minecraft.*` module.

pyCraft itself only uses socket, select, timeit.default_timer, RLock and a
Thread subclass; the rest exists so that a change which starts to use
another standard primitive (an Event instead of polling, settimeout(),
time.monotonic(), poll(), a Lock) still runs under the scheduler instead of
escaping it - which would either hang a run in real time or make it
unrepeatable.
"""
import select as _real_select
import socket as _real_socket
import sys
import threading as _real_threading
import time as _real_time
import timeit as _real_timeit

from . import sched
from .sched import HarnessError


class SimLock(object):
    def __init__(self, sim):
        self.sim = sim
        self.owner = None

    def acquire(self, blocking=True, timeout=-1):
        sim = self.sim
        if sim.aborting:
            return True
        sim.yield_point(21)
        while self.owner is not None:
            if not blocking:
                return False
            sim.stat('lock-contended')
            to = None if timeout is None or timeout < 0 \
                else int(timeout * 1e6)
            if not sim.block(lambda: self.owner is None, to, reason='lock'):
                return False
        self.owner = sim.current or 'set-up'
        return True

    def release(self):
        sim = self.sim
        if sim.aborting:
            return
        if self.owner is None:
            raise RuntimeError('release unlocked lock')
        self.owner = None
        sim.dirty = True
        sim.yield_point(22)

    def locked(self):
        return self.owner is not None

    __enter__ = acquire

    def __exit__(self, *a):
        self.release()


class SimEvent(object):
    def __init__(self, sim):
        self.sim = sim
        self._flag = False

    def is_set(self):
        return self._flag

    isSet = is_set

    def set(self):
        self.sim.yield_point(23)
        self._flag = True
        self.sim.dirty = True

    def clear(self):
        self._flag = False

    def wait(self, timeout=None):
        sim = self.sim
        sim.yield_point(24)
        if self._flag or sim.aborting:
            return self._flag
        to = None if timeout is None else int(max(timeout, 0) * 1e6)
        sim.block(lambda: self._flag, to, reason='event')
        return self._flag


class SimCondition(object):
    def __init__(self, sim, lock=None):
        from .net import SimRLock
        self.sim = sim
        self._lock = lock if lock is not None else SimRLock(sim)
        self._ticket = 0          # notify_all generation
        self._tokens = 0          # single notifications not yet consumed
        self.acquire = self._lock.acquire
        self.release = self._lock.release

    def __enter__(self):
        return self._lock.__enter__()

    def __exit__(self, *a):
        return self._lock.__exit__(*a)

    def _release_all(self):
        lock = self._lock
        n = getattr(lock, 'count', 1)
        for _ in range(n):
            lock.release()
        return n

    def wait(self, timeout=None):
        sim = self.sim
        if sim.aborting:
            return True
        gen = self._ticket
        n = self._release_all()
        got = {'ok': False}

        def pred():
            if self._ticket != gen:
                return True
            if self._tokens > 0:
                return True
            return False
        to = None if timeout is None else int(max(timeout, 0) * 1e6)
        ok = sim.block(pred, to, reason='condition')
        if ok and self._ticket == gen and self._tokens > 0:
            self._tokens -= 1
        got['ok'] = ok
        for _ in range(n):
            self._lock.acquire()
        return bool(ok)

    def wait_for(self, predicate, timeout=None):
        end = None if timeout is None else self.sim.now + int(timeout * 1e6)
        result = predicate()
        while not result:
            left = None
            if end is not None:
                left = (end - self.sim.now) / 1e6
                if left <= 0:
                    break
            self.wait(left)
            result = predicate()
        return result

    def notify(self, n=1):
        self._tokens += n
        self.sim.dirty = True

    def notify_all(self):
        self._ticket += 1
        self._tokens = 0
        self.sim.dirty = True

    notifyAll = notify_all


class SimSemaphore(object):
    def __init__(self, sim, value=1, bounded=False):
        self.sim = sim
        self._value = value
        self._initial = value
        self._bounded = bounded

    def acquire(self, blocking=True, timeout=None):
        sim = self.sim
        if sim.aborting:
            return True
        sim.yield_point(21)
        while self._value <= 0:
            if not blocking:
                return False
            to = None if timeout is None else int(max(timeout, 0) * 1e6)
            if not sim.block(lambda: self._value > 0, to,
                             reason='semaphore'):
                return False
        self._value -= 1
        return True

    def release(self, n=1):
        if self._bounded and self._value + n > self._initial:
            raise ValueError('Semaphore released too many times')
        self._value += n
        self.sim.dirty = True

    __enter__ = acquire

    def __exit__(self, *a):
        self.release()


def patch_thread_class(cls, sim, setattr_):
    """Make a threading.Thread subclass start/join under the scheduler."""
    def t_start(self):
        sim.yield_point(31)
        if getattr(self, '_sim_thread', None) is not None:
            raise RuntimeError('threads can only be started once')
        sim.log('thread-start', None)
        is_net = type(self).__name__ == 'NetworkingThread'

        def body():
            try:
                self.run()
            finally:
                sim.log('thread-end', st.tid)
        if is_net:
            name = 'net%d' % sum(1 for t in sim.threads if t.kind == 'net')
            st = sim.spawn(body, name, kind='net', obj=self)
        else:
            name = 'lib%d' % sum(1 for t in sim.threads if t.kind == 'lib')
            st = sim.spawn(body, name, kind='lib', obj=self)
        self._sim_thread = st

    def t_join(self, timeout=None):
        sim.yield_point(32)
        st = getattr(self, '_sim_thread', None)
        if st is None:
            raise RuntimeError('cannot join thread before it is started')
        if st is sim.current:
            raise RuntimeError('cannot join current thread')
        sim.stat('join-wait')
        sim.block(lambda: st.state == sched.DONE,
                  None if timeout is None else int(timeout * 1e6),
                  reason='join')

    def t_is_alive(self):
        st = getattr(self, '_sim_thread', None)
        return st is not None and st.state != sched.DONE

    setattr_(cls, 'start', t_start)
    setattr_(cls, 'join', t_join)
    setattr_(cls, 'is_alive', t_is_alive)


class SimThreadingModule(object):
    """`threading` as seen by a pyCraft module."""

    def __init__(self, sim, thread_cls, timer_cls):
        self._sim = sim
        self.Thread = thread_cls
        self.Timer = timer_cls
        self.TIMEOUT_MAX = _real_threading.TIMEOUT_MAX
        self.ThreadError = RuntimeError

    def RLock(self):
        from .net import SimRLock
        return SimRLock(self._sim)

    def Lock(self):
        return SimLock(self._sim)

    def Event(self):
        return SimEvent(self._sim)

    def Condition(self, lock=None):
        return SimCondition(self._sim, lock)

    def Semaphore(self, value=1):
        return SimSemaphore(self._sim, value)

    def BoundedSemaphore(self, value=1):
        return SimSemaphore(self._sim, value, bounded=True)

    def current_thread(self):
        cur = self._sim.current
        obj = getattr(cur, 'obj', None)
        return obj if obj is not None else _real_threading.current_thread()

    currentThread = current_thread

    def get_ident(self):
        cur = self._sim.current
        return cur.tid if cur is not None else 0

    def main_thread(self):
        return _real_threading.main_thread()

    def active_count(self):
        return sum(1 for t in self._sim.threads if t.state != sched.DONE)

    def enumerate(self):
        return [t.obj for t in self._sim.threads
                if t.state != sched.DONE and getattr(t, 'obj', None)]

    def local(self):
        return _real_threading.local()

    def __getattr__(self, name):
        self._sim.unsupported('threading.%s' % name)


class SimTimeModule(object):
    """`time` as seen by a pyCraft module: the virtual clock."""

    def __init__(self, sim):
        self._sim = sim
        self.struct_time = _real_time.struct_time

    EPOCH = 1600000000.0

    def _wall_us(self):
        # the wall clock (unlike the monotonic ones) may be stepped by the
        # administrator or NTP between any two readings: `sim.wall_jumps` is
        # a list of [reading number, step in microseconds]
        sim = self._sim
        k = getattr(sim, 'wall_reads', 0)
        sim.wall_reads = k + 1
        for at, step in getattr(sim, 'wall_jumps', None) or ():
            if at == k:
                sim.wall_offset_us = getattr(sim, 'wall_offset_us', 0) + step
                sim.stats['fault.clock-jump'] = \
                    sim.stats.get('fault.clock-jump', 0) + 1
                sim.log('clock-jump', step)
        return int(self.EPOCH * 1e6) + sim.now + \
            getattr(sim, 'wall_offset_us', 0)

    def time(self):
        return self._wall_us() / 1e6

    def time_ns(self):
        return self._wall_us() * 1000

    def monotonic(self):
        return self._sim.now / 1e6

    perf_counter = monotonic
    process_time = monotonic

    def monotonic_ns(self):
        return self._sim.now * 1000

    perf_counter_ns = monotonic_ns

    def sleep(self, secs):
        sim = self._sim
        sim.yield_point(25)
        if sim.aborting:
            return
        sim.log('sleep', int(secs * 1e6))
        if secs > 0:
            sim.block(lambda: False, int(secs * 1e6), reason='sleep')

    def __getattr__(self, name):
        if name in ('gmtime', 'localtime', 'strftime', 'mktime', 'ctime',
                    'asctime', 'strptime', 'timezone', 'altzone', 'tzname',
                    'daylight'):
            return getattr(_real_time, name)
        self._sim.unsupported('time.%s' % name)


def replacements(sim, net, setattr_):
    """-> list of (real object, factory of its stand-in) pairs."""
    from .net import (SimSocketModule, SimSelectModule, SimTimeit, SimRLock)

    class SimThread(_real_threading.Thread):
        pass
    patch_thread_class(SimThread, sim, lambda o, n, v: setattr(o, n, v))

    class SimTimer(SimThread):
        def __init__(self, interval, function, args=None, kwargs=None):
            SimThread.__init__(self)
            self.interval, self.function = interval, function
            self.args = args if args is not None else []
            self.kwargs = kwargs if kwargs is not None else {}
            self.finished = SimEvent(sim)

        def cancel(self):
            self.finished.set()

        def run(self):
            self.finished.wait(self.interval)
            if not self.finished.is_set():
                self.function(*self.args, **self.kwargs)
            self.finished.set()

    sock_mod = SimSocketModule(net)
    sel_mod = SimSelectModule(net)
    time_mod = SimTimeModule(sim)
    timeit_mod = SimTimeit(sim)
    thr_mod = SimThreadingModule(sim, SimThread, SimTimer)
    T = _real_threading
    return [
        (_real_socket, sock_mod), (_real_select, sel_mod),
        (_real_time, time_mod), (_real_timeit, timeit_mod),
        (T, thr_mod),
        (T.RLock, thr_mod.RLock), (T.Lock, thr_mod.Lock),
        (T.Event, thr_mod.Event), (T.Condition, thr_mod.Condition),
        (T.Semaphore, thr_mod.Semaphore),
        (T.BoundedSemaphore, thr_mod.BoundedSemaphore),
        (T.Timer, SimTimer), (T.Thread, SimThread),
        (T.current_thread, thr_mod.current_thread),
        (T.get_ident, thr_mod.get_ident),
        (_real_time.sleep, time_mod.sleep), (_real_time.time, time_mod.time),
        (_real_time.monotonic, time_mod.monotonic),
        (_real_time.perf_counter, time_mod.perf_counter),
        (_real_timeit.default_timer, timeit_mod.default_timer),
        (_real_socket.socket, sock_mod.socket),
        (_real_socket.create_connection, sock_mod.create_connection),
        (_real_socket.getaddrinfo, sock_mod.getaddrinfo),
        (_real_select.select, sel_mod.select),
    ] + ([(_real_select.poll, sel_mod.poll)]
         if hasattr(_real_select, 'poll') else [])


_targets = None


def _scan(reps):
    """(module, attribute, index into reps) for every reference to patch, and
    the Thread subclasses defined by minecraft modules - computed once per
    process (the set of loaded pyCraft modules does not change)."""
    refs, classes = [], []
    for mname in sorted(sys.modules):
        if not (mname == 'minecraft' or mname.startswith('minecraft.')):
            continue
        mod = sys.modules[mname]
        if mod is None:
            continue
        for name, val in sorted(vars(mod).items()):
            if name.startswith('__'):
                continue
            for i, (real, _fake) in enumerate(reps):
                if val is real:
                    refs.append((mod, name, i))
                    break
            else:
                if isinstance(val, type) and \
                        issubclass(val, _real_threading.Thread) and \
                        val.__module__ == mname:
                    classes.append(val)
    return refs, classes


def patch_all(sim, net, setattr_):
    """Swap the references held by every loaded minecraft.* module and put
    every Thread subclass they define under the scheduler."""
    global _targets
    reps = replacements(sim, net, setattr_)
    if _targets is None:
        _targets = _scan(reps)
    refs, classes = _targets
    for mod, name, i in refs:
        setattr_(mod, name, reps[i][1])
    for cls in classes:
        patch_thread_class(cls, sim, setattr_)

"""Packet ids per protocol version, taken from pyCraft's own tables.

Declared trusted/shared (DESIGN 1.5): correctness of the id tables is the
subject of C06/C07, which this technique does not decide.
"""
_cache = {}


def ids_for(proto):
    if proto in _cache:
        return _cache[proto]
    from minecraft.networking.connection import ConnectionContext
    from minecraft.networking.packets import clientbound as cb, serverbound as sb
    ctx = ConnectionContext(protocol_version=proto)
    later = ctx.protocol_later_eq
    d = {
        'cb.login.disconnect': cb.login.DisconnectPacket.get_id(ctx),
        'cb.login.encryption_request':
            cb.login.EncryptionRequestPacket.get_id(ctx),
        'cb.login.success': cb.login.LoginSuccessPacket.get_id(ctx),
        'cb.login.set_compression': cb.login.SetCompressionPacket.get_id(ctx),
        'cb.login.plugin_request': cb.login.PluginRequestPacket.get_id(ctx)
        if later(385) else None,
        'sb.login.start': sb.login.LoginStartPacket.get_id(ctx),
        'sb.login.encryption_response':
            sb.login.EncryptionResponsePacket.get_id(ctx),
        'sb.login.plugin_response': sb.login.PluginResponsePacket.get_id(ctx)
        if later(385) else None,
        'cb.play.keep_alive': cb.play.KeepAlivePacket.get_id(ctx),
        'cb.play.position': cb.play.PlayerPositionAndLookPacket.get_id(ctx),
        'cb.play.chat': cb.play.ChatMessagePacket.get_id(ctx),
        'cb.play.disconnect': cb.play.DisconnectPacket.get_id(ctx),
        'cb.play.plugin': cb.play.PluginMessagePacket.get_id(ctx),
        'cb.play.time': cb.play.TimeUpdatePacket.get_id(ctx),
        'cb.play.health': cb.play.UpdateHealthPacket.get_id(ctx),
        'cb.play.set_compression': cb.play.SetCompressionPacket.get_id(ctx)
        if ctx.protocol_earlier_eq(47) else None,
        'sb.play.keep_alive': sb.play.KeepAlivePacket.get_id(ctx),
        'sb.play.position': sb.play.PositionAndLookPacket.get_id(ctx),
        'sb.play.teleport_confirm': 0x00 if later(107) else None,
        'sb.play.chat': sb.play.ChatPacket.get_id(ctx),
        'sb.play.plugin': sb.play.PluginMessagePacket.get_id(ctx),
    }
    # all clientbound play ids known to pyCraft (to pick unknown ids)
    known = set()
    for cls in cb.play.get_packets(ctx):
        known.add(cls.get_id(ctx))
    d['cb.play.known'] = sorted(known)
    d['later'] = {b: later(b) for b in (107, 339, 385, 391, 707, 718, 755)}
    _cache[proto] = d
    return d


def supported_protocols():
    from minecraft import SUPPORTED_PROTOCOL_VERSIONS
    return list(SUPPORTED_PROTOCOL_VERSIONS)


_usable = []


def colliding_protocols():
    """Protocols where two registered classes of one table share an id (the
    subject of C06, not decided here): excluded from scenario sampling, since
    pyCraft's decoder choice there depends on set iteration order."""
    from minecraft import SUPPORTED_PROTOCOL_VERSIONS
    from minecraft.networking.connection import ConnectionContext
    from minecraft.networking.packets import clientbound as cb, \
        serverbound as sb
    bad = []
    for p in SUPPORTED_PROTOCOL_VERSIONS:
        ctx = ConnectionContext(protocol_version=p)
        for mod in (cb.play, cb.login, cb.status, sb.play, sb.login):
            seen = set()
            for cls in mod.get_packets(ctx):
                i = cls.get_id(ctx)
                if i in seen:
                    bad.append(p)
                seen.add(i)
    return sorted(set(bad))


def usable_protocols():
    if not _usable:
        bad = set(colliding_protocols())
        _usable.extend(p for p in supported_protocols() if p not in bad)
    return list(_usable)

#!/venv/bin/python
"""Negative controls: refactorings of pyCraft that keep every property.

Each entry rewrites a scratch copy of /repo (never /repo itself) in a way a
maintainer might - another readiness call, another lock spelling, another
clock, socket options, one send per frame - and every check must still exit 0
on it.  A check that alarms here demands more than its property states, or
the simulated standard library is missing something the rewrite uses.

usage: selftest/benign.py [--only NAME] [--checks C01,C12] [--runs N]
"""
import argparse
import os
import shutil
import subprocess
import sys
import tempfile
import time

VERIF = os.path.dirname(os.path.dirname(os.path.abspath(__file__)))
REPO = os.environ.get('VERIF_REPO', '/repo')
CONN = 'minecraft/networking/connection.py'
PKT = 'minecraft/networking/packets/packet.py'
ENC = 'minecraft/networking/encryption.py'
ALL = ['C01', 'C09', 'C10', 'C11', 'C12', 'C13', 'C14', 'C15', 'C16', 'C18',
       'C19']

BENIGN = [
    ('poll-instead-of-select', [(CONN,
        "        ready_to_read = select.select([stream], [], [], timeout)[0]\n",
        "        if hasattr(select, 'poll'):\n"
        "            poller = select.poll()\n"
        "            poller.register(stream, select.POLLIN)\n"
        "            ready_to_read = poller.poll(int(timeout * 1000))\n"
        "        else:\n"
        "            ready_to_read = select.select([stream], [], [],\n"
        "                                          timeout)[0]\n")]),
    ('threading-dot-rlock', [(CONN,
        "        self._write_lock = RLock()\n",
        "        self._write_lock = threading.RLock()\n")]),
    ('monotonic-clock', [
        (CONN, "import timeit\n", "import timeit\nimport time\n"),
        (CONN, "ping_packet.time = int(1000 * timeit.default_timer())",
               "ping_packet.time = int(1000 * time.monotonic())"),
        (CONN, "now = int(1000 * timeit.default_timer())",
               "now = int(1000 * time.monotonic())")]),
    ('socket-options', [(CONN,
        "        self.socket = sock\n",
        "        sock.settimeout(None)\n"
        "        sock.setsockopt(socket.IPPROTO_TCP, socket.TCP_NODELAY, 1)\n"
        "        sock.setsockopt(socket.SOL_SOCKET, socket.SO_KEEPALIVE, 1)\n"
        "        self.socket = sock\n")]),
    ('connect-timeout-then-blocking', [(CONN,
        "            sock.connect(ai_addr)\n",
        "            sock.settimeout(30)\n"
        "            sock.connect(ai_addr)\n"
        "            sock.settimeout(None)\n")]),
    ('one-send-per-frame', [(PKT,
        "        VarInt.send(len(packet_buffer.get_writable()), socket)  # Packet Size\n"
        "        socket.send(packet_buffer.get_writable())  # Packet Payload\n",
        "        frame = PacketBuffer()\n"
        "        VarInt.send(len(packet_buffer.get_writable()), frame)\n"
        "        frame.send(packet_buffer.get_writable())\n"
        "        socket.send(frame.get_writable())\n")]),
    ('interrupt-event-alongside-flag', [
        (CONN,
         "        self.interrupt = False\n        self.connection = connection\n",
         "        self.interrupt = False\n"
         "        self.finished = threading.Event()\n"
         "        self.connection = connection\n"),
        (CONN,
         "        finally:\n            with self.connection._write_lock:\n"
         "                self.connection.networking_thread = None\n",
         "        finally:\n            with self.connection._write_lock:\n"
         "                self.connection.networking_thread = None\n"
         "            self.finished.set()\n")]),
    # behaviour changes that no property forbids
    ('smaller-batches', [
        (CONN, "                        if num_packets >= 300:\n",
               "                        if num_packets >= 100:\n"),
        (CONN, "            while num_packets < 50 and not self.interrupt:\n",
               "            while num_packets < 20 and not self.interrupt:\n")]),
    ('shorter-poll', [(CONN, "                    read_timeout = 0.05\n",
                             "                    read_timeout = 0.02\n")]),
    ('longer-poll', [(CONN, "                    read_timeout = 0.05\n",
                            "                    read_timeout = 0.25\n")]),
    ('keepalive-answer-forced', [(CONN,
        "            self.connection.write_packet(keep_alive_packet)\n",
        "            self.connection.write_packet(keep_alive_packet,\n"
        "                                         force=True)\n")]),
    ('auth-post-json-kwarg', [('minecraft/authentication.py',
        "    res = requests.post(server + \"/\" + endpoint, data=json.dumps(data),\n"
        "                        headers=HEADERS, timeout=15)\n",
        "    res = requests.post(server + \"/\" + endpoint, json=data,\n"
        "                        headers=dict(HEADERS), timeout=30)\n")]),
    ('cipher-two-step-send', [(ENC,
        "        self.actual_socket.send(self.encryptor.update(data))\n",
        "        ciphertext = self.encryptor.update(data)\n"
        "        self.actual_socket.send(ciphertext)\n")]),
    ('exit-lock-explicit-acquire', [(CONN,
        "        with self._write_lock:  # pylint: disable=not-context-manager\n"
        "            self.connected = False\n",
        "        with self._write_lock:  # pylint: disable=not-context-manager\n"
        "            self.connected = bool(0)\n")]),
]


# Not a negative control for every property: answering keep-alives with a
# forced write from inside the read phase bypasses pyCraft's deliberate
# hold-back of write errors until the server's disconnect packet has been
# read, so a kick (keep-alive, disconnect, close) is reported as an error.
# That is seeded change C11c, and C11 is right to object.  It also writes
# the answer to a keep-alive that is followed by protocol 47's play-state Set
# Compression in the OLD framing, which the server no longer accepts by then
# (a race inherent in that protocol, which pyCraft's queued answer avoids):
# C12's play-switch scenario sees a frame it cannot place.
NOT_FOR = {'keepalive-answer-forced': {'C11', 'C12'}}


def apply(root, edits):
    for rel, old, new in edits:
        p = os.path.join(root, rel)
        s = open(p).read()
        if s.count(old) < 1:
            raise SystemExit('benign edit does not apply: %s %r' % (rel,
                                                                   old[:50]))
        open(p, 'w').write(s.replace(old, new, 1))


def main():
    ap = argparse.ArgumentParser()
    ap.add_argument('--only')
    ap.add_argument('--checks')
    ap.add_argument('--runs', type=int)
    a = ap.parse_args()
    checks = a.checks.split(',') if a.checks else ALL
    bad = 0
    for name, edits in BENIGN:
        if a.only and a.only != name:
            continue
        tmp = tempfile.mkdtemp(prefix='benign-')
        root = os.path.join(tmp, 'repo')
        try:
            shutil.copytree(REPO, root, ignore=shutil.ignore_patterns(
                '.git', '__pycache__', '.tox', '*.egg-info'))
            apply(root, edits)
            env = dict(os.environ, VERIF_REPO=root,
                       VERIF_REPLAY_DIR=os.path.join(tmp, 'replays'))
            for cid in checks:
                if cid in NOT_FOR.get(name, ()):
                    continue
                t0 = time.time()
                cmd = [os.path.join(VERIF, 'check'), cid, '--no-evidence']
                if a.runs:
                    cmd += ['--runs', str(a.runs)]
                p = subprocess.run(cmd, env=env, cwd=VERIF,
                                   capture_output=True, text=True)
                lines = [l for l in p.stdout.splitlines()
                         if l.startswith(('VIOLATION', 'HARNESS'))]
                ok = p.returncode == 0 and not lines
                print('%-34s %s %-6s %5.1fs %s' % (
                    name, cid, 'quiet' if ok else 'ALARM',
                    time.time() - t0, '; '.join(l[:110] for l in lines[:2])
                    or ('' if ok else (p.stdout + p.stderr)[-200:])))
                sys.stdout.flush()
                if not ok:
                    bad += 1
        finally:
            shutil.rmtree(tmp, ignore_errors=True)
    print('%d alarm(s) on property-preserving rewrites' % bad)
    return 1 if bad else 0


if __name__ == '__main__':
    sys.exit(main())

#!/venv/bin/python
"""Cross-checks of the independent crypto in sim/wire.py against published
vectors (NIST SP 800-38A F.3.7 CFB8-AES128, FIPS-197 C.1) and against the
cryptography package's own RSA decryption / the wiki.vg hash vectors."""
import os
import sys
import json

VERIF = os.path.dirname(os.path.dirname(os.path.abspath(__file__)))
sys.path.insert(0, VERIF)
from sim import wire  # noqa


def main():
    bad = 0
    # FIPS-197 C.1 (single block) through the ECB primitive CFB8 is built on
    from cryptography.hazmat.primitives.ciphers import Cipher, algorithms, \
        modes
    key = bytes.fromhex('000102030405060708090a0b0c0d0e0f')
    pt = bytes.fromhex('00112233445566778899aabbccddeeff')
    ct = Cipher(algorithms.AES(key), modes.ECB()).encryptor().update(pt)
    ok = ct.hex() == '69c4e0d86a7b0430d8cdb78070b4c55a'
    print('FIPS-197 C.1 AES-128 block          ', 'ok' if ok else 'FAIL')
    bad += not ok
    # NIST SP 800-38A F.3.7 / F.3.8 CFB8-AES128
    key = bytes.fromhex('2b7e151628aed2a6abf7158809cf4f3c')
    iv = bytes.fromhex('000102030405060708090a0b0c0d0e0f')
    pt = bytes.fromhex('6bc1bee22e409f96e93d7e117393172aae2d')
    want = bytes.fromhex('3b79424c9c0dd436bace9e0ed4586a4f32b9')
    enc = wire.CFB8(key, iv)
    got = b''.join(enc.update(pt[i:i + 1]) for i in range(len(pt)))
    ok = got == want
    print('SP 800-38A F.3.7 CFB8-AES128 encrypt', 'ok' if ok else 'FAIL')
    bad += not ok
    dec = wire.CFB8(key, iv, decrypt=True)
    ok = dec.update(want[:5]) + dec.update(want[5:]) == pt
    print('SP 800-38A F.3.8 CFB8-AES128 decrypt', 'ok' if ok else 'FAIL')
    bad += not ok
    # wiki.vg session hash vectors (Java BigInteger.toString(16))
    import hashlib

    def jhex(name):
        dg = hashlib.sha1(name.encode()).digest()
        n = int.from_bytes(dg, 'big')
        if dg[0] & 0x80:
            return '-%x' % ((1 << 160) - n)
        return '%x' % n
    vec = {'Notch': '4ed1f46bbe04bc756bcb17c0c7ce3e4632f06a48',
           'jeb_': '-7c9d5b0044c130109a5d7b5fb5c317c02b4e28c1',
           'simon': '88e16a1019277b15d58faf0541e11910eb756f6'}
    for k, v in vec.items():
        ok = wire.java_hex_digest(k, b'', b'') == v == jhex(k)
        print('session hash vector %-16s' % k, 'ok' if ok else 'FAIL')
        bad += not ok
    # raw RSA + PKCS#1 v1.5 un-padding against the library's encryption
    from cryptography.hazmat.primitives.serialization import \
        load_der_public_key
    from cryptography.hazmat.primitives.asymmetric.padding import PKCS1v15
    keys = json.load(open(os.path.join(VERIF, 'keys', 'rsa.json')))
    for bits, k in keys.items():
        pub = load_der_public_key(bytes.fromhex(k['der_hex']))
        for msg in (b'\x00', b'x' * 16, bytes(range(64)), b'\x00\x02\x00'):
            c = pub.encrypt(msg, PKCS1v15())
            ok = wire.rsa_decrypt_pkcs1v15(c, int(k['n']), int(k['d'])) == msg
            bad += not ok
        print('RSA-%s raw decrypt + un-padding      ' % bits,
              'ok' if not bad else 'FAIL')
    return 1 if bad else 0


if __name__ == '__main__':
    sys.exit(main())

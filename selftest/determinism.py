#!/venv/bin/python
"""Determinism self-test: same (seed, index) -> same digest, in-process twice,
in fresh interpreters under different PYTHONHASHSEEDs, and after other runs."""
import os
import sys
import json
import subprocess
import warnings

VERIF = os.path.dirname(os.path.dirname(os.path.abspath(__file__)))
sys.path.insert(0, VERIF)
warnings.filterwarnings('ignore')


def digests(prop_id, seed, indices, tier='quick'):
    from sim import seams, runner
    seams.import_minecraft()
    from props import load
    prop = load(prop_id)
    out = {}
    for i in indices:
        sc, res = runner.run_case(prop, seed, i, tier)
        out[i] = '%x/%d/%s' % (res.digest, res.steps,
                               sorted(set(s for s, _ in res.violations)))
    return out


def main():
    if len(sys.argv) > 1 and sys.argv[1] == '--child':
        prop_id, seed, idx = sys.argv[2], int(sys.argv[3]), \
            json.loads(sys.argv[4])
        print(json.dumps(digests(prop_id, seed, idx)))
        return 0
    from props import CLAIMED
    props = sys.argv[1].split(',') if len(sys.argv) > 1 else CLAIMED
    n = int(sys.argv[2]) if len(sys.argv) > 2 else 40
    bad = 0
    for pid in props:
        try:
            __import__('props.' + pid.lower())
        except ImportError:
            continue
        for seed in (1, 20260926):
            idx = list(range(n))
            a = digests(pid, seed, idx)
            b = digests(pid, seed, list(reversed(idx)))
            ok = all(a[i] == b[i] for i in idx)
            outs = []
            for hs in ('0', '1', '12345'):
                env = dict(os.environ, PYTHONHASHSEED=hs)
                r = subprocess.run(
                    [sys.executable, '-W', 'ignore', __file__, '--child', pid,
                     str(seed), json.dumps(idx[::3])],
                    capture_output=True, text=True, env=env, timeout=600)
                if r.returncode != 0:
                    print(r.stderr[-2000:])
                    ok = False
                    continue
                c = json.loads(r.stdout.strip().splitlines()[-1])
                outs.append(c)
                ok = ok and all(c[str(i)] == a[i] for i in idx[::3])
            print('%s seed=%d n=%d %s' % (pid, seed, n,
                                          'deterministic' if ok else
                                          'DIVERGED'))
            if not ok:
                bad += 1
                for i in idx:
                    if a[i] != b[i]:
                        print('  in-process order-dependent case', i, a[i],
                              b[i])
    return 1 if bad else 0


if __name__ == '__main__':
    sys.exit(main())

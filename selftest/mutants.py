#!/venv/bin/python
"""Sensitivity self-test: apply each catalogued mutation to a scratch copy of
/repo (outside /repo and /verif), run the property's check against it
(VERIF_REPO), expect a VIOLATION, delete the copy.

usage: selftest/mutants.py [PROP[,PROP...]] [--runs N] [--only name]
"""
import os
import sys
import json
import shutil
import tempfile
import subprocess
import time

VERIF = os.path.dirname(os.path.dirname(os.path.abspath(__file__)))
REPO = os.environ.get('VERIF_REPO_BASE', '/repo')
CONN = 'minecraft/networking/connection.py'
PKT = 'minecraft/networking/packets/packet.py'
ENC = 'minecraft/networking/encryption.py'
PL = 'minecraft/networking/packets/packet_listener.py'
AUTH = 'minecraft/authentication.py'

# (property, name, file, old, new)
M = [
 ('C12', 'forced-write-without-lock', CONN,
  "        if force:\n            with self._write_lock:\n                self._write_packet(packet)",
  "        if force:\n            self._write_packet(packet)"),
 ('C12', 'disconnect-does-not-flush', CONN,
  "            if not immediate and self.socket is not None:",
  "            if False and self.socket is not None:"),
 ('C12', 'immediate-disconnect-flushes', CONN,
  "            if not immediate and self.socket is not None:",
  "            if self.socket is not None:"),
 ('C12', 'lifo-queue', CONN,
  "self._write_packet(self._outgoing_packet_queue.popleft())",
  "self._write_packet(self._outgoing_packet_queue.pop())"),
 ('C12', 'network-loop-writes-without-lock', CONN,
  "            num_packets = 0\n            with self.connection._write_lock:\n                try:",
  "            num_packets = 0\n            if True:\n                try:"),
 ('C15', 'eof-loop-restored', CONN,
  "                if not data:\n                    raise EOFError(\"Unexpected end of message.\")\n",
  ""),
 ('C16', 'check-connection-ignores-active', CONN,
  "    def _check_connection(self):\n        if self.networking_thread is not None and \\\n           not self.networking_thread.interrupt or \\\n           self.new_networking_thread is not None:",
  "    def _check_connection(self):\n        if self.new_networking_thread is not None:"),
 ('C16', 'handle-exception-check-without-lock', CONN,
  "        with self._write_lock:\n            if (self.new_networking_thread or\n                    self.networking_thread).interrupt:\n                self.disconnect(immediate=True)",
  "        if True:\n            if (self.new_networking_thread or\n                    self.networking_thread).interrupt:\n                self.disconnect(immediate=True)"),
 ('C16', 'successor-does-not-join', CONN,
  "                if self.previous_thread.is_alive():\n                    self.previous_thread.join()",
  "                pass"),
 ('C16', 'disconnect-forgets-interrupt', CONN,
  "            elif self.networking_thread is not None:\n                self.networking_thread.interrupt = True\n\n            if self.socket is not None:",
  "            elif self.networking_thread is not None:\n                pass\n\n            if self.socket is not None:"),
 ('C16', 'flush-error-escapes', CONN,
  "                except socket.error:\n                    # The connection is already broken; carry on closing it.\n                    pass",
  "                except KeyError:\n                    pass"),
 ('C01', 'single-read-no-loop', CONN,
  "            while len(packet_data.get_writable()) < length:",
  "            while False:"),
 ('C01', 'compress-threshold-off-by-one-below', PKT,
  "            if len(packet_buffer.get_writable()) > compression_threshold != -1:",
  "            if len(packet_buffer.get_writable()) > compression_threshold - 2 != -1:"),
 ('C01', 'never-compress', PKT,
  "            if len(packet_buffer.get_writable()) > compression_threshold != -1:",
  "            if False:"),
 ('C01', 'size-check-dropped-and-trailing-kept', CONN,
  "                    packet_data.reset()\n                    packet_data.send(decompressed_packet)\n                    packet_data.reset_cursor()",
  "                    packet_data.send(decompressed_packet)\n                    packet_data.reset_cursor()"),
 ('C01', 'unknown-packet-consumes-next', CONN,
  "                packet = packets.Packet()\n                packet.context = self.connection.context\n                packet.id = packet_id",
  "                packet = packets.Packet()\n                packet.context = self.connection.context\n                packet.id = packet_id\n                if length == 3:\n                    stream.read(1)"),
 ('C15', 'eof-in-length-prefix-swallowed', CONN,
  "            length = VarInt.read(stream)\n",
  "            try:\n                length = VarInt.read(stream)\n            except EOFError:\n                return None\n"),
 ('C09', 'fallback-on-any-error', CONN,
  "        if isinstance(exc, EOFError):\n            # An exception of this type may indicate",
  "        if isinstance(exc, Exception):\n            # An exception of this type may indicate"),
 ('C11', 'ka-id-truncated', CONN,
  "keep_alive_packet.keep_alive_id = packet.keep_alive_id",
  "keep_alive_packet.keep_alive_id = packet.keep_alive_id & 0x7FFFFFFFFFFFFFFF"),
 ('C11', 'teleport-boundary-moved', CONN,
  "            if self.connection.context.protocol_later_eq(107):",
  "            if self.connection.context.protocol_later_eq(108):"),
 ('C11', 'play-disconnect-immediate', CONN,
  "        elif packet.packet_name == \"disconnect\":\n            self.connection.disconnect()\n\n\nclass StatusReactor",
  "        elif packet.packet_name == \"disconnect\":\n            self.connection.disconnect(immediate=True)\n\n\nclass StatusReactor"),
 ('C11', 'echo-on-ground-false', CONN,
  "position_response.on_ground = True", "position_response.on_ground = False"),
 ('C11', 'spawned-never-set', CONN,
  "            self.connection.spawned = True", "            pass"),
 ('C11', 'exit-callback-twice', CONN,
  "            self._run()\n            self.connection._handle_exit()",
  "            self._run()\n            self.connection._handle_exit()\n            self.connection._handle_exit()"),
 ('C11', 'keepalive-answered-before-listeners-twice', CONN,
  "            keep_alive_packet.keep_alive_id = packet.keep_alive_id\n            self.connection.write_packet(keep_alive_packet)",
  "            keep_alive_packet.keep_alive_id = packet.keep_alive_id\n            self.connection.write_packet(keep_alive_packet)\n            if packet.keep_alive_id == 128:\n                self.connection.write_packet(keep_alive_packet)"),
 ('C11', 'read-batch-drops-packet-at-50', CONN,
  "                if not packet:\n                    break\n                num_packets += 1\n                self.connection._react(packet)",
  "                if not packet:\n                    break\n                num_packets += 1\n                if num_packets == 50:\n                    break\n                self.connection._react(packet)"),
 ('C09', 'empty-status-falls-back', CONN,
  "        if status == {}:", "        if status == {'never': 1}:"),
 ('C09', 'mismatch-wording-swapped', CONN,
  "             if server_protocol in SUPPORTED_PROTOCOL_VERSIONS \\\n             else 'not supported'",
  "             if server_protocol not in SUPPORTED_PROTOCOL_VERSIONS \\\n             else 'not supported'"),
 ('C09', 'default-used-although-allowed', CONN,
  "        self.handle_proto_version(proto)\n\n    def handle_proto_version",
  "        self.handle_failure()\n\n    def handle_proto_version"),
 ('C09', 'status-query-for-singleton', CONN,
  "            if len(self.allowed_proto_versions) == 1:",
  "            if len(self.allowed_proto_versions) == 0:"),
 ('C09', 'handshake-port-constant', CONN,
  "        handshake.server_port = self.options.port",
  "        handshake.server_port = 25565"),
 ('C09', 'ping-sent-when-disabled', CONN,
  "            if self.do_ping:\n                ping_packet = serverbound.status.PingPacket()",
  "            if True:\n                ping_packet = serverbound.status.PingPacket()"),
 ('C09', 'login-name-ignores-profile', CONN,
  "                    login_start_packet.name = self.auth_token.profile.name",
  "                    login_start_packet.name = self.username"),
 ('C09', 'mismatch-when-not-supported-only', CONN,
  "        if proto not in self.connection.allowed_proto_versions:",
  "        if proto not in SUPPORTED_PROTOCOL_VERSIONS:"),
 ('C09', 'unsupported-allowed-version-accepted', CONN,
  "            if proto_version not in SUPPORTED_PROTOCOL_VERSIONS:\n                raise ValueError",
  "            if proto_version is None:\n                raise ValueError"),
 ('C09', 'latency-negated', CONN,
  "                self.handle_ping(now - packet.time)",
  "                self.handle_ping(packet.time - now)"),
 ('C09', 'status-handshake-uses-default-version', CONN,
  "            self.context.protocol_version \\\n                = max(self.allowed_proto_versions,\n                      key=PROTOCOL_VERSION_INDICES.get)",
  "            self.context.protocol_version = self.default_proto_version"),
 ('C10', 'encryption-response-not-forced', CONN,
  "            self.connection.write_packet(encryption_response, force=True)",
  "            self.connection.write_packet(encryption_response)"),
 ('C10', 'cipher-installed-before-response', CONN,
  "                self.connection.write_packet(encryption_response, force=True)\n\n                # Enable the encryption\n                cipher = encryption.create_AES_cipher(secret)\n                encryptor = cipher.encryptor()\n                decryptor = cipher.decryptor()\n                self.connection.socket = encryption.EncryptedSocketWrapper(\n                    self.connection.socket, encryptor, decryptor)",
  "                cipher = encryption.create_AES_cipher(secret)\n                encryptor = cipher.encryptor()\n                decryptor = cipher.decryptor()\n                self.connection.socket = encryption.EncryptedSocketWrapper(\n                    self.connection.socket, encryptor, decryptor)\n                self.connection.write_packet(encryption_response, force=True)"),
 ('C10', 'read-direction-not-encrypted', CONN,
  "                self.connection.file_object = \\\n                    encryption.EncryptedFileObjectWrapper(\n                        self.connection.file_object, decryptor)",
  "                pass"),
 ('C10', 'login-compression-not-enabled', CONN,
  "        elif packet.packet_name == \"set compression\":\n            self.connection.options.compression_threshold = packet.threshold\n            self.connection.options.compression_enabled = True\n\n        elif packet.packet_name == \"login plugin request\":",
  "        elif packet.packet_name == \"set compression\":\n            self.connection.options.compression_threshold = packet.threshold\n\n        elif packet.packet_name == \"login plugin request\":"),
 ('C10', 'plugin-default-answer-successful', CONN,
  "                    message_id=packet.message_id, successful=False))",
  "                    message_id=packet.message_id, successful=True, data=b''))"),
 ('C10', 'plugin-answer-wrong-id', CONN,
  "                    message_id=packet.message_id, successful=False))",
  "                    message_id=packet.message_id & 0x7F, successful=False))"),
 ('C10', 'login-disconnect-swallowed', CONN,
  "            raise LoginDisconnect('The server rejected our login attempt '\n                                  'with: \"%s\".' % msg)",
  "            self.connection.disconnect()"),
 ('C10', 'hash-order-wrong', ENC,
  "    verification_hash.update(shared_secret)\n    verification_hash.update(public_key)",
  "    verification_hash.update(public_key)\n    verification_hash.update(shared_secret)"),
 ('C10', 'join-skipped-for-empty-server-id', CONN,
  "            if packet.server_id != '-':", "            if packet.server_id not in ('-', ''):"),
 ('C10', 'token-and-secret-swapped', CONN,
  "            encryption_response.shared_secret = encrypted_secret\n            encryption_response.verify_token = token",
  "            encryption_response.shared_secret = token\n            encryption_response.verify_token = encrypted_secret"),
 ('C10', 'outdated-server-text-not-recognised', CONN,
  "Outdated (client! Please use|server!", "Outdated (client! Please use|servers!"),
 ('C10', 'play-reactor-not-installed-until-next-packet', CONN,
  "        elif packet.packet_name == \"login success\":\n            self.connection.reactor = PlayingReactor(self.connection)",
  "        elif packet.packet_name == \"login success\":\n            pass"),
 ('C10', 'disconnect-text-uses-raw-json-always', CONN,
  "                msg = json.loads(packet.json_data)['text']", "                msg = json.loads(packet.json_data)['texts']"),
 ('C18', 'iv-is-zero', ENC,
  "modes.CFB8(shared_secret)", "modes.CFB8(bytes(16))"),
 ('C18', 'cfb128-instead-of-cfb8', ENC,
  "modes.CFB8(shared_secret)", "modes.CFB(shared_secret)"),
 ('C18', 'ctr-mode', ENC,
  "modes.CFB8(shared_secret)", "modes.CTR(shared_secret)"),
 ('C18', 'ofb-mode', ENC,
  "modes.CFB8(shared_secret)", "modes.OFB(shared_secret)"),
 ('C18', 'secret-cached-per-process', ENC,
  "def generate_shared_secret():\n    return os.urandom(16)",
  "_cached = []\n\n\ndef generate_shared_secret():\n    if not _cached:\n        _cached.append(os.urandom(16))\n    return _cached[0]"),
 ('C18', 'oaep-padding', ENC,
  "    encrypted_secret = pubkey.encrypt(shared_secret, PKCS1v15())",
  "    from cryptography.hazmat.primitives.asymmetric.padding import OAEP, MGF1\n    from cryptography.hazmat.primitives import hashes\n    encrypted_secret = pubkey.encrypt(shared_secret, OAEP(MGF1(hashes.SHA1()), hashes.SHA1(), None))"),
 ('C18', 'recv-uses-encryptor', ENC,
  "        return self.decryptor.update(self.actual_socket.recv(length))",
  "        return self.encryptor.update(self.actual_socket.recv(length))"),
 ('C18', 'send-finalizes-per-call', ENC,
  "        self.actual_socket.send(self.encryptor.update(data))",
  "        self.actual_socket.send(self.encryptor.update(data))\n        if len(data) == 17:\n            self.encryptor.update(b'x')"),
 ('C18', 'key-is-reversed-secret', ENC,
  "    cipher = Cipher(algorithms.AES(shared_secret), modes.CFB8(shared_secret),",
  "    cipher = Cipher(algorithms.AES(shared_secret[::-1]), modes.CFB8(shared_secret),"),
 ('C13', 'listener-lists-swapped', CONN,
  "            else self.early_packet_listeners if early and not outgoing \\\n            else self.outgoing_packet_listeners if not early \\",
  "            else self.early_packet_listeners if early and not outgoing \\\n            else self.outgoing_packet_listeners if early \\"),
 ('C13', 'early-ignore-does-not-stop-reaction', CONN,
  "        try:\n            for listener in self.early_packet_listeners:\n                listener.call_packet(packet)\n            self.reactor.react(packet)",
  "        try:\n            try:\n                for listener in self.early_packet_listeners:\n                    listener.call_packet(packet)\n            except IgnorePacket:\n                pass\n            self.reactor.react(packet)"),
 ('C13', 'called-once-per-matching-type', PL,
  "                self.callback(packet)\n                return True",
  "                self.callback(packet)"),
 ('C13', 'outgoing-listeners-before-write', CONN,
  "            if self.options.compression_enabled:\n                packet.write(self.socket, self.options.compression_threshold)\n            else:\n                packet.write(self.socket)\n\n            for listener in self.outgoing_packet_listeners:\n                listener.call_packet(packet)",
  "            for listener in self.outgoing_packet_listeners:\n                listener.call_packet(packet)\n\n            if self.options.compression_enabled:\n                packet.write(self.socket, self.options.compression_threshold)\n            else:\n                packet.write(self.socket)"),
 ('C13', 'ordinary-listeners-before-reaction', CONN,
  "            self.reactor.react(packet)\n            for listener in self.packet_listeners:\n                listener.call_packet(packet)",
  "            for listener in self.packet_listeners:\n                listener.call_packet(packet)\n            self.reactor.react(packet)"),
 ('C13', 'early-listeners-reverse-order', CONN,
  "        target.append(packets.PacketListener(method, *packet_types, **kwds))",
  "        if early:\n            target.insert(0, packets.PacketListener(method, *packet_types, **kwds))\n        else:\n            target.append(packets.PacketListener(method, *packet_types, **kwds))"),
 ('C13', 'exact-type-match-only', PL,
  "            if isinstance(packet, packet_type):",
  "            if type(packet) is packet_type:"),
 ('C13', 'ignore-in-ordinary-outgoing-aborts-later-packets', CONN,
  "            for listener in self.outgoing_packet_listeners:\n                listener.call_packet(packet)\n        except IgnorePacket:\n            pass",
  "            for listener in self.outgoing_packet_listeners:\n                try:\n                    listener.call_packet(packet)\n                except IgnorePacket:\n                    pass\n        except IgnorePacket:\n            pass"),
 ('C14', 'no-break-after-catching-handler', CONN,
  "                    handler(exc, exc_info)\n                    caught = True\n                    break",
  "                    handler(exc, exc_info)\n                    caught = True"),
 ('C14', 'final-handler-skipped-when-caught', CONN,
  "        if final_handler not in (None, False):",
  "        if final_handler not in (None, False) and not caught:"),
 ('C14', 're-raise-with-final-false', CONN,
  "        if final_handler is None and not caught:",
  "        if not final_handler and not caught:"),
 ('C14', 're-raise-even-if-caught', CONN,
  "        if final_handler is None and not caught:",
  "        if final_handler is None:"),
 ('C14', 'connection-left-open-after-exception', CONN,
  "            if (self.new_networking_thread or\n                    self.networking_thread).interrupt:\n                self.disconnect(immediate=True)",
  "            if (self.new_networking_thread or\n                    self.networking_thread).interrupt:\n                pass"),
 ('C14', 'early-handler-appended', CONN,
  "            self._exception_handlers.insert(0, (handler_func, exc_types))",
  "            self._exception_handlers.append((handler_func, exc_types))"),
 ('C14', 'handler-exception-does-not-replace', CONN,
  "                    handler(exc, exc_info)\n                    caught = True\n                    break\n                except Exception as new_exc:\n                    exc, exc_info = new_exc, sys.exc_info()",
  "                    handler(exc, exc_info)\n                    caught = True\n                    break\n                except Exception as new_exc:\n                    pass"),
 ('C14', 'interrupt-not-set-on-exception', CONN,
  "        except Exception as e:\n            self.interrupt = True\n            self.connection._handle_exception(e, sys.exc_info())",
  "        except Exception as e:\n            self.connection._handle_exception(e, sys.exc_info())"),
 ('C14', 'exit-callback-exception-escapes', CONN,
  "            self._run()\n            self.connection._handle_exit()\n        except Exception as e:",
  "            self._run()\n        except Exception as e:"),
 ('C14', 'exact-type-match-in-handlers', CONN,
  "            if not exc_types or isinstance(exc, exc_types):",
  "            if not exc_types or type(exc) in exc_types:"),
 ('C19', 'non-dict-error-body', AUTH,
  "        if not (isinstance(json_resp, dict) and\n                \"error\" in json_resp and \"errorMessage\" in json_resp):",
  "        if not (\"error\" in json_resp and \"errorMessage\" in json_resp):"),
 ('C19', 'authenticated-ignores-client-token', AUTH,
  "        if not self.client_token:\n            return False\n", ""),
 ('C19', 'refresh-keeps-old-client-token', AUTH,
  "        self.access_token = json_resp[\"accessToken\"]\n        self.client_token = json_resp[\"clientToken\"]\n        self.profile.id_ = json_resp[\"selectedProfile\"][\"id\"]\n        self.profile.name = json_resp[\"selectedProfile\"][\"name\"]\n\n        return True\n\n    def validate",
  "        self.access_token = json_resp[\"accessToken\"]\n        self.profile.id_ = json_resp[\"selectedProfile\"][\"id\"]\n        self.profile.name = json_resp[\"selectedProfile\"][\"name\"]\n\n        return True\n\n    def validate"),
 ('C19', 'authenticate-stores-username-before-check', AUTH,
  "        res = _make_request(AUTH_SERVER, \"authenticate\", payload)\n\n        _raise_from_response(res)\n\n        json_resp = res.json()\n\n        self.username = username",
  "        self.username = username\n        res = _make_request(AUTH_SERVER, \"authenticate\", payload)\n\n        _raise_from_response(res)\n\n        json_resp = res.json()\n"),
 ('C19', 'validate-true-for-any-2xx', AUTH,
  "        if res.status_code == 204:\n            return True",
  "        if res.status_code // 100 == 2:\n            return True"),
 ('C19', 'join-without-authenticated-check', AUTH,
  "        if not self.authenticated:\n            err = \"AuthenticationToken hasn't been authenticated yet!\"\n            raise YggdrasilError(err)",
  "        if not self.access_token:\n            err = \"AuthenticationToken hasn't been authenticated yet!\"\n            raise YggdrasilError(err)"),
 ('C19', 'invalidate-swallows-errors', AUTH,
  "        if res.status_code != 204:\n            _raise_from_response(res)\n        return True\n\n    def join",
  "        return True\n\n    def join"),
 ('C19', 'cause-field-dropped', AUTH,
  "        exception.yggdrasil_cause = json_resp.get(\"cause\")", "        pass"),
 ('C19', 'join-payload-profile-name-only', AUTH,
  "                             \"selectedProfile\": self.profile.to_dict(),",
  "                             \"selectedProfile\": self.profile.name,"),
 ('C19', 'signout-endpoint-typo', AUTH,
  "        res = _make_request(AUTH_SERVER, \"signout\",", "        res = _make_request(AUTH_SERVER, \"sign_out\","),
 ('C19', 'status-code-not-set', AUTH,
  "    exception.status_code = res.status_code\n", "    exception.status_code = None\n"),
 ('C01', 'framing-mode-survives-reconnect', CONN,
  "        self.options.compression_enabled = False\n        self.options.compression_threshold = -1\n        self.connected = True",
  "        self.connected = True"),
 ('C16', 'handover-successor-does-not-wait-when-interrupted', CONN,
  "                if self.previous_thread.is_alive():\n                    self.previous_thread.join()",
  "                while not self.interrupt and self.previous_thread.is_alive():\n                    self.previous_thread.join(0.05)"),
 ('C18', 'secret-cached-on-connection-until-disconnect', CONN,
  "            secret = encryption.generate_shared_secret()\n",
  "            secret = getattr(self.connection, '_sec', None) or encryption.generate_shared_secret()\n            self.connection._sec = secret\n"),
]


def scratch_copy(base=None):
    """The library's sources in a fresh directory: the working tree of
    /repo, or - for a recorded seeded change - the commit that change was
    made against (later `fix:` commits may touch the same lines)."""
    d = tempfile.mkdtemp(prefix='dst-mut-')
    if base:
        r = subprocess.run('git -C %s archive %s minecraft | tar -x -C %s'
                           % (REPO, base, d), shell=True,
                           capture_output=True, text=True)
        if r.returncode == 0 and os.path.isdir(os.path.join(d, 'minecraft')):
            return d
    shutil.copytree(os.path.join(REPO, 'minecraft'),
                    os.path.join(d, 'minecraft'),
                    ignore=shutil.ignore_patterns('__pycache__'))
    return d


def run_one(prop, name, path, old, new, runs):
    d = scratch_copy()
    try:
        p = os.path.join(d, path)
        s = open(p).read()
        if old not in s:
            return 'STALE', 0.0, ''
        open(p, 'w').write(s.replace(old, new, 1))
        env = dict(os.environ, VERIF_REPO=d, VERIF_REPLAY_DIR=os.path.join(
            d, 'replays'))
        t = time.time()
        cmd = [os.path.join(VERIF, 'check'), prop, '--no-evidence']
        if runs:
            cmd += ['--runs', str(runs)]
        r = subprocess.run(cmd, capture_output=True, text=True, env=env,
                           timeout=1800)
        dt = time.time() - t
        sigs = [ln.split('signature=')[1].split()[0]
                for ln in r.stdout.splitlines()
                if ln.startswith('VIOLATION') and 'signature=' in ln]
        if r.returncode == 1 and sigs:
            return 'CAUGHT', dt, ','.join(sorted(set(sigs)))
        if r.returncode == 2:
            return 'HARNESS', dt, r.stdout[-300:]
        return 'MISSED', dt, r.stdout[-200:]
    finally:
        shutil.rmtree(d, ignore_errors=True)


def run_seeded(only=None, runs=None):
    """Re-run every recorded seeded change (seeded/<id>/patch.diff) against
    the check of its property, on a scratch copy."""
    import glob
    rows = []
    for meta_p in sorted(glob.glob(os.path.join(VERIF, 'seeded', '*',
                                                'meta.json'))):
        meta = json.load(open(meta_p))
        sid, prop = meta['id'], meta['property']
        if only and only not in (sid, prop):
            continue
        d = scratch_copy(meta.get('base_commit'))
        try:
            patch = os.path.join(os.path.dirname(meta_p), 'patch.diff')
            r = subprocess.run(['patch', '-p1', '-s', '-i', patch], cwd=d,
                               capture_output=True, text=True)
            if r.returncode != 0:
                rows.append((sid, 'STALE', r.stdout[-200:]))
                print('%-6s STALE %s' % (sid, r.stdout[-200:]), flush=True)
                continue
            env = dict(os.environ, VERIF_REPO=d,
                       VERIF_REPLAY_DIR=os.path.join(d, 'replays'))
            cmd = [os.path.join(VERIF, 'check'), prop, '--no-evidence']
            if runs:
                cmd += ['--runs', str(runs)]
            t = time.time()
            r = subprocess.run(cmd, capture_output=True, text=True, env=env,
                               timeout=3600)
            sigs = sorted(set(
                ln.split('signature=')[1].split()[0]
                for ln in r.stdout.splitlines()
                if ln.startswith('VIOLATION') and 'signature=' in ln))
            st = 'CAUGHT' if r.returncode == 1 and sigs else 'MISSED'
            rows.append((sid, st, sigs))
            print('%-6s %-7s %6.1fs %s' % (sid, st, time.time() - t,
                                           ','.join(sigs)[:150]), flush=True)
        finally:
            shutil.rmtree(d, ignore_errors=True)
    missed = [r for r in rows if r[1] != 'CAUGHT']
    print('%d seeded changes, %d caught' % (len(rows),
                                            len(rows) - len(missed)))
    return 1 if missed else 0


def main():
    args = sys.argv[1:]
    if args and args[0] == '--seeded':
        return run_seeded(args[1] if len(args) > 1 else None)
    runs = None
    only = None
    props = None
    i = 0
    while i < len(args):
        if args[i] == '--runs':
            runs = int(args[i + 1])
            i += 2
        elif args[i] == '--only':
            only = args[i + 1]
            i += 2
        else:
            props = args[i].split(',')
            i += 1
    rows = []
    for prop, name, path, old, new in M:
        if props and prop not in props:
            continue
        if only and only != name:
            continue
        st, dt, info = run_one(prop, name, path, old, new, runs)
        rows.append((prop, name, st, round(dt, 1), info))
        print('%-4s %-42s %-8s %6.1fs %s' % (prop, name, st, dt, info),
              flush=True)
    missed = [r for r in rows if r[2] != 'CAUGHT']
    print('%d mutants, %d caught' % (len(rows), len(rows) - len(missed)))
    return 1 if missed else 0


if __name__ == '__main__':
    sys.exit(main())

#!/venv/bin/python
"""Socket-model conformance: the same client-side call sequences are run
against real loopback TCP sockets and against the simulator's socket/select
stubs; return values and exception types must agree (DESIGN 1.4)."""
import os
import sys
import time
import errno
import socket
import select
import struct
import threading
import warnings

VERIF = os.path.dirname(os.path.dirname(os.path.abspath(__file__)))
sys.path.insert(0, VERIF)
warnings.filterwarnings('ignore')


def outcome(fn):
    try:
        v = fn()
        if isinstance(v, tuple) and len(v) == 3:      # select result
            return ('ok', [len(x) for x in v])
        return ('ok', v)
    except OSError as e:
        return ('exc', type(e).__name__, e.errno)
    except Exception as e:
        return ('exc', type(e).__name__, None)


class RealEnv(object):
    name = 'real'

    def __init__(self):
        self.socket = socket
        self.select = select
        self.lsock = socket.socket()
        self.lsock.bind(('127.0.0.1', 0))
        self.lsock.listen(4)
        self.addr = self.lsock.getsockname()
        self.peer = None

    def connect(self):
        s = socket.socket(socket.AF_INET, socket.SOCK_STREAM)
        s.connect(self.addr)
        self.peer, _ = self.lsock.accept()
        return s

    def connect_high(self):
        # a socket whose descriptor number is beyond FD_SETSIZE
        import fcntl
        import resource
        soft, hard = resource.getrlimit(resource.RLIMIT_NOFILE)
        if soft < 2048:
            resource.setrlimit(resource.RLIMIT_NOFILE,
                               (min(4096, hard), hard))
        s0 = self.connect()
        fd = fcntl.fcntl(s0.fileno(), fcntl.F_DUPFD, 1100)
        s = socket.socket(fileno=fd)
        s0.close()
        return s

    def refused_addr(self):
        t = socket.socket()
        t.bind(('127.0.0.1', 0))
        a = t.getsockname()
        t.close()
        return a

    def server_send(self, data):
        self.peer.sendall(data)
        time.sleep(0.05)

    def server_close(self):
        self.peer.close()
        time.sleep(0.05)

    def server_rst(self):
        self.peer.setsockopt(socket.SOL_SOCKET, socket.SO_LINGER,
                             struct.pack('ii', 1, 0))
        self.peer.close()
        time.sleep(0.05)

    def server_received(self):
        self.peer.settimeout(0.3)
        out = b''
        try:
            while True:
                d = self.peer.recv(65536)
                if not d:
                    return out, True
                out += d
        except socket.timeout:
            return out, False
        except ConnectionResetError:
            return out, 'rst'

    def later(self, delay, fn):
        t = threading.Timer(delay, fn)
        t.daemon = True
        t.start()

    def run(self, body):
        return body(self)

    def close(self):
        try:
            self.lsock.close()
            if self.peer:
                self.peer.close()
        except Exception:
            pass


class SimEnv(object):
    name = 'sim'

    def __init__(self):
        from sim.world import World
        from sim.tape import Tape
        from sim import net as simnet

        class RawServer(object):
            def __init__(s, sim):
                s.sim = sim
                s.apps = []
                s.got = {}
                s.fin = {}

            def on_accept(s, conn):
                s.got[conn.index] = bytearray()

            def on_data(s, conn, data):
                s.got[conn.index] += data

            def on_fin(s, conn):
                s.fin[conn.index] = True
        self.w = World({'net': {'latency_us': 10}, 'sched': {
            'granularity': 'io'}}, Tape(replay=[]))
        self.w.server = RawServer(self.w.sim)
        self.w.net.server = self.w.server
        self.socket = simnet.SimSocketModule(self.w.net)
        self.select = simnet.SimSelectModule(self.w.net)
        self.result = None

    def connect(self):
        s = self.socket.socket(self.socket.AF_INET, self.socket.SOCK_STREAM)
        s.connect(('203.0.113.1', 1))
        self.w.sleep(100)
        return s

    def connect_high(self):
        self.w.net.next_fd = 1100
        return self.connect()

    def refused_addr(self):
        self.w.net.refuse.add(self.w.net.attempts)
        return ('203.0.113.1', 1)

    def _conn(self):
        return self.w.net.conns[-1]

    def server_send(self, data):
        c = self._conn()
        self.w.sim.after(0, lambda: c.server_send(data), 'srv')
        self.w.sleep(1000)

    def server_close(self):
        c = self._conn()
        self.w.sim.after(0, c.server_close, 'srv')
        self.w.sleep(1000)

    def server_rst(self):
        c = self._conn()
        self.w.sim.after(0, c.server_rst, 'srv')
        self.w.sleep(1000)

    def server_received(self):
        self.w.sleep(1000)
        c = self._conn()
        return bytes(self.w.server.got.get(c.index, b'')), \
            bool(self.w.server.fin.get(c.index))

    def later(self, delay, fn):
        def body():
            self.w.sleep(int(delay * 1e6))
            fn()
        self.w.sim.spawn(body, 'later')

    def run(self, body):
        from sim import seams
        seams.import_minecraft()

        def user():
            self.result = body(self)
        self.w.sim.spawn(user, 'user0')
        self.w.sim.run(30)
        if self.w.sim.end_state != 'done':
            return ('sim-end', self.w.sim.end_state, self.w.sim.end_detail)
        return self.result

    def close(self):
        pass


# ------------------------------------------------------------------ cases
def case_refused(env):
    s = env.socket.socket(env.socket.AF_INET, env.socket.SOCK_STREAM)
    return outcome(lambda: s.connect(env.refused_addr()))


def case_read_data_short(env):
    s = env.connect()
    f = s.makefile('rb', 0)
    env.server_send(b'abcdef')
    a = outcome(lambda: f.read(4))
    b = outcome(lambda: f.read(10))
    return [a, b]


def case_read_eof(env):
    s = env.connect()
    f = s.makefile('rb', 0)
    env.server_send(b'xy')
    env.server_close()
    return [outcome(lambda: f.read(2)), outcome(lambda: f.read(5)),
            outcome(lambda: f.read(1)),
            outcome(lambda: env.select.select([f], [], [], 0))]


def case_read_after_file_close(env):
    s = env.connect()
    f = s.makefile('rb', 0)
    f.close()
    return [outcome(lambda: f.read(1)),
            outcome(lambda: env.select.select([f], [], [], 0))]


def case_read_after_rst(env):
    s = env.connect()
    f = s.makefile('rb', 0)
    env.server_rst()
    return [outcome(lambda: env.select.select([f], [], [], 0)),
            outcome(lambda: f.read(1)),
            outcome(lambda: s.shutdown(env.socket.SHUT_RDWR))]


def case_rst_with_unread_data_read_first(env):
    # data that arrived before the reset stays readable; the error comes
    # once, after it; then end-of-stream
    s = env.connect()
    f = s.makefile('rb', 0)
    env.server_send(b'abcdef')
    env.server_rst()
    return [outcome(lambda: env.select.select([f], [], [], 0)),
            outcome(lambda: f.read(4)), outcome(lambda: f.read(4)),
            outcome(lambda: f.read(4)), outcome(lambda: f.read(4)),
            outcome(lambda: s.send(b'x'))]


def case_rst_with_unread_data_send_first(env):
    # the failed send consumes the pending error: the data is still
    # readable and is followed by a plain end-of-stream
    s = env.connect()
    f = s.makefile('rb', 0)
    env.server_send(b'abcdef')
    env.server_rst()
    return [outcome(lambda: s.send(b'x')), outcome(lambda: s.send(b'y')),
            outcome(lambda: f.read(4)), outcome(lambda: f.read(4)),
            outcome(lambda: f.read(4)),
            outcome(lambda: env.select.select([f], [], [], 0))]


def _poll(env, f, mask=None, timeout=0):
    def go():
        p = env.select.poll()
        if mask is None:
            p.register(f)
        else:
            p.register(f, mask)
        return sorted(ev for _fd, ev in p.poll(timeout))
    return outcome(go)


def case_poll_idle_data_eof(env):
    s = env.connect()
    f = s.makefile('rb', 0)
    IN = env.select.POLLIN
    a = _poll(env, f, IN)
    b = _poll(env, f, IN, 50)
    env.server_send(b'abc')
    c = _poll(env, f, IN)
    c2 = _poll(env, s, IN | env.select.POLLOUT)
    f.read(3)
    d = _poll(env, f, IN)
    env.server_close()
    e = _poll(env, f, IN)
    e2 = _poll(env, f)
    f.read(1)
    g = _poll(env, f, IN)
    return [a, b, c, c2, d, e, e2, g]


def case_poll_rst(env):
    s = env.connect()
    f = s.makefile('rb', 0)
    IN = env.select.POLLIN
    env.server_send(b'abcdef')
    env.server_rst()
    a = _poll(env, f, IN)
    r1 = outcome(lambda: f.read(6))
    b = _poll(env, f, IN)
    r2 = outcome(lambda: f.read(1))
    c = _poll(env, f, IN)
    r3 = outcome(lambda: f.read(1))
    d = _poll(env, f, IN)
    return [a, r1, b, r2, c, r3, d]


def case_poll_after_shutdown_and_close(env):
    s = env.connect()
    f = s.makefile('rb', 0)
    IN = env.select.POLLIN
    s.shutdown(env.socket.SHUT_RDWR)
    a = _poll(env, f, IN)
    f.close()
    b = _poll(env, f, IN)
    s.close()
    return [a, b]


def case_poll_blocked_then_shutdown(env):
    s = env.connect()
    f = s.makefile('rb', 0)
    env.later(0.1, lambda: s.shutdown(env.socket.SHUT_RDWR))
    return [_poll(env, f, env.select.POLLIN, 2000),
            outcome(lambda: f.read(1))]


def case_poll_fin_after_local_wr_shutdown(env):
    s = env.connect()
    f = s.makefile('rb', 0)
    s.shutdown(env.socket.SHUT_WR)
    a = _poll(env, f, env.select.POLLIN)
    env.server_close()
    b = _poll(env, f, env.select.POLLIN)
    return [a, b]


def case_select_timeout(env):
    s = env.connect()
    f = s.makefile('rb', 0)
    return [outcome(lambda: env.select.select([f], [], [], 0)),
            outcome(lambda: env.select.select([f], [], [], 0.05))]


def case_blocked_read_then_shutdown(env):
    s = env.connect()
    f = s.makefile('rb', 0)
    env.later(0.1, lambda: s.shutdown(env.socket.SHUT_RDWR))
    return [outcome(lambda: f.read(3)), outcome(lambda: f.read(3))]


def case_blocked_select_then_shutdown(env):
    s = env.connect()
    f = s.makefile('rb', 0)
    env.later(0.1, lambda: s.shutdown(env.socket.SHUT_RDWR))
    return [outcome(lambda: env.select.select([f], [], [], 2.0)),
            outcome(lambda: f.read(1))]


def case_blocked_read_then_shutdown_wr(env):
    # a write-side shutdown does not wake a blocked reader; data sent by
    # the peer afterwards is still received
    s = env.connect()
    f = s.makefile('rb', 0)
    env.later(0.1, lambda: s.shutdown(env.socket.SHUT_WR))
    env.later(0.4, lambda: env.server_send(b'late'))
    return [outcome(lambda: f.read(4)), outcome(lambda: s.send(b'x'))]


def case_send_after_shutdown(env):
    s = env.connect()
    s.shutdown(env.socket.SHUT_RDWR)
    return [outcome(lambda: s.send(b'x')),
            outcome(lambda: s.shutdown(env.socket.SHUT_RDWR))]


def case_send_after_close(env):
    s = env.connect()
    f = s.makefile('rb', 0)
    s.close()
    a = outcome(lambda: s.send(b'x'))
    b = outcome(lambda: s.shutdown(env.socket.SHUT_RDWR))
    c = outcome(lambda: s.fileno() >= 0)
    d = outcome(lambda: f.fileno() >= 0)
    f.close()
    e = outcome(lambda: f.fileno())
    return [a, b, c, d, e]


def case_shutdown_unconnected(env):
    s = env.socket.socket(env.socket.AF_INET, env.socket.SOCK_STREAM)
    return [outcome(lambda: s.shutdown(env.socket.SHUT_RDWR))]


def case_first_send_after_peer_close(env):
    s = env.connect()
    f = s.makefile('rb', 0)
    env.server_close()
    return [outcome(lambda: s.send(b'hello')),
            outcome(lambda: f.read(1))]


def case_send_then_fin_seen_by_server(env):
    s = env.connect()
    f = s.makefile('rb', 0)
    s.send(b'abc')
    s.send(b'de')
    s.shutdown(env.socket.SHUT_RDWR)
    f.close()
    s.close()
    return [('server', env.server_received())]


def case_close_releases_only_with_file(env):
    s = env.connect()
    f = s.makefile('rb', 0)
    s.close()                       # file object still holds the fd
    got1 = env.server_received()
    f.close()
    got2 = env.server_received()
    return [('after-sock-close', got1), ('after-file-close', got2)]


def case_descriptor_beyond_select_range(env):
    s = env.connect_high()
    env.server_send(b'x')
    a = outcome(lambda: env.select.select([s], [], [], 0))
    p = env.select.poll()
    p.register(s, env.select.POLLIN)
    b = outcome(lambda: [m for _fd, m in p.poll(0)])
    c = outcome(lambda: s.recv(10))
    return [s.fileno() >= 1024, a, b, c]


def case_zero_length_reads(env):
    s = env.connect()
    f = s.makefile('rb', 0)
    a = [outcome(lambda: s.recv(0)), outcome(lambda: f.read(0))]
    env.server_send(b'abc')
    b = [outcome(lambda: s.recv(0)), outcome(lambda: f.read(0)),
         outcome(lambda: s.recv(2)), outcome(lambda: f.read(0)),
         outcome(lambda: f.read(5))]
    env.server_close()
    c = [outcome(lambda: s.recv(0)), outcome(lambda: f.read(0)),
         outcome(lambda: f.read(1))]
    return a + b + c


CASES = [case_zero_length_reads, case_descriptor_beyond_select_range, case_refused, case_read_data_short, case_read_eof,
         case_read_after_file_close, case_read_after_rst,
         case_rst_with_unread_data_read_first,
         case_rst_with_unread_data_send_first,
         case_poll_idle_data_eof, case_poll_rst,
         case_poll_after_shutdown_and_close,
         case_poll_blocked_then_shutdown,
         case_poll_fin_after_local_wr_shutdown,
         case_select_timeout, case_blocked_read_then_shutdown,
         case_blocked_select_then_shutdown,
         case_blocked_read_then_shutdown_wr, case_send_after_shutdown,
         case_send_after_close, case_shutdown_unconnected,
         case_first_send_after_peer_close,
         case_send_then_fin_seen_by_server,
         case_close_releases_only_with_file]


def main():
    bad = 0
    for case in CASES:
        real = RealEnv()
        try:
            r = real.run(case)
        finally:
            real.close()
        sim = SimEnv()
        s = sim.run(case)
        same = repr(r) == repr(s)
        print('%-40s %s' % (case.__name__, 'agree' if same else 'DIFFER'))
        if not same:
            bad += 1
            print('   real:', r)
            print('   sim :', s)
    print('%d cases, %d differ' % (len(CASES), bad))
    return 1 if bad else 0


if __name__ == '__main__':
    sys.exit(main())

#!/bin/sh
# every check, few runs, WITH evidence writing, then schema validation.
# The evidence files of the full runs are put back afterwards: what is
# committed under evidence/ must come from the registered commands, not from
# this 150-run smoke test.
cd "$(dirname "$0")/.." || exit 2
rc=0
keep=$(mktemp -d)
cp evidence/*.json "$keep"/ 2>/dev/null
for id in C01 C09 C10 C11 C12 C13 C14 C15 C16 C18 C19; do
  out=$(./check $id --runs ${1:-150} 2>&1 | grep -v conda | tail -1)
  case "$out" in *exit=0) ;; *) echo "SMOKE FAIL $id: $out"; rc=1;; esac
done
python3-vt - <<'PY' || rc=1
import json, glob, jsonschema, sys
sch = json.load(open('/root/.vp/EVIDENCE.schema.json'))
bad = 0
for f in sorted(glob.glob('evidence/*.json')):
    try:
        jsonschema.validate(json.load(open(f)), sch)
    except Exception as e:
        print('SCHEMA', f, str(e)[:200]); bad = 1
jsonschema.validate(json.load(open('MANIFEST.json')),
                    json.load(open('/root/.vp/MANIFEST.schema.json')))
sys.exit(bad)
PY
cp "$keep"/*.json evidence/ 2>/dev/null
rm -rf "$keep"
[ $rc = 0 ] && echo "smoke ok"
exit $rc

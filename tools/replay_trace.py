#!/venv/bin/python
"""Replay a stored case and print its event history (debugging aid).
usage: tools/replay_trace.py <PROP> <replay.json> [first [last]]"""
import json
import os
import sys
sys.path.insert(0, os.path.dirname(os.path.dirname(os.path.abspath(__file__))))
if os.environ.get('PYTHONHASHSEED') != '0':
    os.environ['PYTHONHASHSEED'] = '0'
    os.execv(sys.executable, [sys.executable] + sys.argv)
from sim import seams
seams.import_minecraft()
from props import load
from sim import runner
import sim.world as W
prop = load(sys.argv[1])
rp = json.load(open(sys.argv[2]))
lo = int(sys.argv[3]) if len(sys.argv) > 3 else 0
hi = int(sys.argv[4]) if len(sys.argv) > 4 else 10**9
orig = W.World.run


def run(self, build):
    r = orig(self, build)
    names = {t.tid: t.name for t in self.sim.threads}
    for seq, tid, kind, d, vt in self.sim.history:
        if lo <= seq <= hi:
            print('%5d %9d %-10s %-16s %s' % (seq, vt, names.get(tid, tid),
                                             kind, repr(d)[:120]))
    print('end', self.sim.end_state, self.sim.end_detail)
    return r


W.World.run = run
res = runner.replay_case(prop, rp['scenario'], rp['tape'])
for sig, detail in res.violations:
    print('VIOL', sig, json.dumps(detail, default=repr)[:600])

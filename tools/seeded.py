#!/venv/bin/python
"""Verify a sub-agent's seeded change and record it under /verif/seeded/<id>/.

usage: tools/seeded.py <ID> <worktree> <PROP> [--props P1,P2] [--runs N]
Steps (all confirmed here, not taken from the agent's report):
  1. test suite in the worktree with the change: must be 87 passed / 14 failed
  2. demo with the change: must exit non-zero
  3. demo without the change (git stash in the worktree): must exit 0
  4. apply patch.diff to /repo, run ./check PROP (quick), undo (git checkout)
"""
import os
import sys
import json
import glob
import shutil
import subprocess
import time

VERIF = os.path.dirname(os.path.dirname(os.path.abspath(__file__)))


def sh(cmd, cwd=None, timeout=1800, env=None):
    r = subprocess.run(cmd, shell=True, cwd=cwd, capture_output=True,
                       text=True, timeout=timeout, env=env)
    return r.returncode, r.stdout + r.stderr


def main():
    sid, wt, prop = sys.argv[1:4]
    props = [prop]
    runs = None
    a = sys.argv[4:]
    while a:
        if a[0] == '--props':
            props = a[1].split(',')
            a = a[2:]
        elif a[0] == '--runs':
            runs = a[1]
            a = a[2:]
    meta = {'id': sid, 'property': prop, 'worktree': wt}
    demo = glob.glob(os.path.join(wt, 'demo_*.py'))[0]
    patch = os.path.join(wt, 'patch.diff')
    # the patch must be the worktree's current diff of minecraft/
    rc, out = sh('git diff -- minecraft', cwd=wt)
    cur = out
    if cur.strip() != open(patch).read().strip():
        # trust the seeder's saved patch, restore the worktree from it
        sh('git checkout -- minecraft', cwd=wt)
        rc, out = sh('git apply %s' % patch, cwd=wt)
        meta['worktree_restored_from_patch'] = (rc == 0)
    rc, out = sh('/venv/bin/python -m pytest -q -p no:cacheprovider '
                 '--timeout=900 --continue-on-collection-errors 2>&1 | '
                 'tail -1', cwd=wt)
    meta['tests_with_change'] = out.strip()
    t = time.time()
    rc1, out1 = sh('/venv/bin/python %s' % demo, cwd=wt, timeout=600)
    meta['demo_with_change'] = {'exit': rc1, 'tail': out1[-300:],
                                's': round(time.time() - t, 1)}
    # NB: never `git stash` here - the stash is shared by all worktrees
    sh('git checkout -- minecraft', cwd=wt)
    try:
        rc0, out0 = sh('/venv/bin/python %s' % demo, cwd=wt, timeout=600)
    finally:
        sh('git apply %s' % patch, cwd=wt)
    meta['demo_without_change'] = {'exit': rc0, 'tail': out0[-300:]}
    ok = '87 passed' in meta['tests_with_change'] and rc1 != 0 and rc0 == 0
    meta['confirmed'] = ok
    # run our checks against the change - on a scratch copy of /repo's
    # working tree (VERIF_REPO), so that /repo itself is never modified while
    # background soaks import from it
    import tempfile
    scratch = tempfile.mkdtemp(prefix='dst-seeded-')
    try:
        # the commit the seeder worked on (its worktree's HEAD): /repo may
        # have gained a `fix:` commit touching the same lines since
        rc_, base = sh('git rev-parse --short HEAD', cwd=wt)
        base = base.strip().splitlines()[-1] if rc_ == 0 else None
        meta['base_commit'] = base
        r = subprocess.run('git -C /repo archive %s minecraft | tar -x -C %s'
                           % (base, scratch), shell=True,
                           capture_output=True, text=True)
        if r.returncode != 0 or not os.path.isdir(
                os.path.join(scratch, 'minecraft')):
            shutil.copytree('/repo/minecraft',
                            os.path.join(scratch, 'minecraft'),
                            ignore=shutil.ignore_patterns('__pycache__'))
        r = subprocess.run(['patch', '-p1', '-s', '-i', patch], cwd=scratch,
                           capture_output=True, text=True)
        if r.returncode != 0:
            print('patch does not apply: ' + r.stdout + r.stderr)
            meta['applies'] = False
        else:
            meta['applies'] = True
            results = {}
            for p in props:
                cmd = '%s/check %s --no-evidence' % (VERIF, p)
                if runs:
                    cmd += ' --runs %s' % runs
                env = dict(os.environ, VERIF_REPO=scratch,
                           VERIF_REPLAY_DIR=os.path.join(scratch, 'replays'))
                t = time.time()
                rc, o = sh(cmd, cwd=VERIF, env=env)
                sigs = sorted(set(
                    ln.split('signature=')[1].split()[0]
                    for ln in o.splitlines()
                    if ln.startswith('VIOLATION') and 'signature=' in ln))
                results[p] = {'exit': rc, 'signatures': sigs,
                              's': round(time.time() - t, 1),
                              'tail': o.strip().splitlines()[-1][:300]}
            meta['checks'] = results
    finally:
        shutil.rmtree(scratch, ignore_errors=True)
    d = os.path.join(VERIF, 'seeded', sid)
    os.makedirs(d, exist_ok=True)
    shutil.copy(patch, os.path.join(d, 'patch.diff'))
    shutil.copy(demo, os.path.join(d, os.path.basename(demo)))
    notes = os.path.join(wt, 'NOTES.md')
    if os.path.exists(notes):
        shutil.copy(notes, os.path.join(d, 'NOTES.md'))
    json.dump(meta, open(os.path.join(d, 'meta.json'), 'w'), indent=1)
    print(json.dumps({k: meta[k] for k in ('id', 'confirmed',
                                           'tests_with_change')}),
          json.dumps(meta.get('checks'), indent=0)[:1500])
    return 0


if __name__ == '__main__':
    sys.exit(main())

#!/venv/bin/python
"""Regenerates MANIFEST.json from the table below."""
import json
import os

V = os.path.dirname(os.path.dirname(os.path.abspath(__file__)))

CHECKS = {

 'C01': ('exploration', 'seeded partition search + cut-point sweep of the byte stream under deterministic simulation, independent framing/cipher peer',
         'Every cut position of six short server streams, plus seeded scenarios over threshold {none,-1,0,1,2,16,64,256,1024} x cipher on/off x up to 25 clientbound frames (sizes around threshold-1/threshold/threshold+1, unknown ids, up to 8 KiB) and up to 12 written packets, delivered as whole frames, 1-byte reads, tape-chosen partitions or long-paused cuts; payload sizes include the frame-length VarInt boundaries; write sequences contain forced writes that fail during serialisation; 20% of the cases run a second session with its own framing mode on the same Connection (after disconnect(), or started by the exception handler after a server-side drop). Oracle: the early-listener log equals the sent (id, fields) sequence; the independent server parse of the client stream equals the written (id, payload) sequence; written frames are acceptable to a vanilla decoder and compressed above the threshold.',
         'DESIGN.md 3/C01'),
 'C09': ('exploration', 'seeded configuration x server-behaviour search under deterministic simulation against a pure reference function',
         'Seeded allowed-version sets (all/singleton/pair/prefix/few/invalid; names or numbers) x default version x call (connect, status with 3x3 handler modes) x server status behaviour (allowed/disallowed/unsupported/unknown protocol, missing version/protocol, {}, FIN on accept, FIN after request); thorough sweeps every supported protocol as the server reply. Expected TCP connections, handshake fields, login-start name, delivered error (type, named version, wording) and status handler/ping/latency/exit behaviour come from a reference function that shares only the version tables with pyCraft. Faults: refused login connect, failing sends to an early closer, segmentation, wall-clock steps between two readings (30% of the runs).',
         'DESIGN.md 3/C09'),
 'C10': ('exploration', 'seeded login-script search (grammar of optional steps) under deterministic simulation, independent RSA/CFB8/zlib server and session-service stub',
         'Seeded server scripts [compress]? [encrypt]? [compress]? with plugin requests at any position, ending in success or a disconnect at any point; thresholds {0,1,64,256,2^31-1}; 1024/2048-bit keys; token sizes 1..64; server ids; with/without auth token and join replies incl. errors; optional user plugin listener; in 30% of the cases a second login on the same Connection (by the user or by the exception handler); protocols either side of 385/391/707; segmentation. The independent server checks the clear-text response, both RSA blobs, CFB8 on all later bytes, framing discipline after set-compression, exactly one answer per plugin request, the join payload and hash, play entry, and the surfaced error for disconnects and failed joins.',
         'DESIGN.md 3/C10'),
 'C11': ('exploration', 'seeded server-history search under deterministic simulation, independent server-side answer oracle',
         'Seeded play histories of 1..400 packets (keep-alive ids at every VarInt/Long boundary incl. negatives, position-and-look, unknown ids, known-unhandled packets, pauses; bursts crossing the 50-read and 300-write batches; 0/5/320/650 user-queued packets) ending in a play disconnect, compression on/off, optional segmentation, optional slow early listener, 25% kick cases (server closes right after the disconnect packet, send-error fault), protocol sampled with layout boundaries over-weighted (thorough: all collision-free supported versions x4). Oracle: answers equal sent ids in order exactly once, teleports acknowledged per version, deliveries in order with unknown ids generic, FIN after all answers, exit callback once, no error.',
         'DESIGN.md 3/C11'),
 'C13': ('exploration', 'seeded listener-configuration x history search under deterministic simulation against a reference dispatcher over the global event order',
         'Seeded configurations of 0..10 listeners over the four classes with 0..3 type filters from a hierarchy (abstract super-classes, unrelated classes), random IgnorePacket subsets (also for the set-compression packet, with a server that keeps the old framing when the reaction is suppressed), incoming listeners that write a forced packet during dispatch, x login and play packet histories x queued/forced user writes. A reference dispatcher predicts the global incoming call log and, per outgoing packet, early calls / written? / ordinary calls; byte offsets of the client stream at each callback decide before/after-the-write; the built-in reaction is placed between the stages through its observable effects. In the concurrent-registration family the user thread queues 2 or 5 packets just before its own disconnect(): whichever thread flushes them, each passes the early outgoing listeners once in order, the ignored one stays off the wire and the ordinary listeners see exactly the written ones.',
         'DESIGN.md 3/C13'),
 'C14': ('fault_enumeration', 'enumeration of fault origins x handler chains x final-handler modes under deterministic simulation against a reference try/except model',
         '15 fault origins (listeners in status/login/play, login-disconnect and status-JSON reactions, five malformed-body decoder faults, outgoing listener in the write phase, exit callback) x 5 final-handler modes x all chains of length <= 2 over 7 handler kinds are enumerated (4275 cases); longer chains with random filters, early flags and return/raise/reconnect behaviour are sampled; varied gaps before the disconnect packet of the server, slow and persistently failing listeners. Oracle: handler call sequence with exception identity, recorded exception/exc_info, re-raise from the thread (captured by the scheduler), connection closed unless reconnected, and a fresh connect() afterwards.',
         'DESIGN.md 3/C14'),
 'C18': ('exploration', 'seeded stream/partition search under deterministic simulation against an independent AES-128-CFB8 (single-block ECB) and raw-RSA PKCS#1 v1.5 peer',
         'One or two consecutive encrypted logins (1024/2048-bit keys, tokens of 1..64 bytes, optional compression) followed by up to several KiB of traffic per direction under tape-chosen segmentation and short reads, (the second login after disconnect() or started by the exception handler), two Connection objects writing concurrently, a stretch of the live inbound stream read through mixed connection.socket.recv()/file_object.read() calls, plus wrapper-level runs driving EncryptedSocketWrapper.send/recv and EncryptedFileObjectWrapper.read with random splits and an injected EAGAIN. Oracle: byte equality of the wire ciphertext with an independent CFB8(key=IV=secret) encryption of the expected plaintext as one continuous stream, content equality of both decrypted directions, secrets fresh per login, secret and token recovered exactly by raw RSA + un-padding.',
         'DESIGN.md 3/C18'),
 'C19': ('exploration', 'seeded operation-history x reply-fault search against an in-process HTTP stand-in (real requests encoding) and a reference token model',
         'Seeded histories (1..8 ops over authenticate, refresh, validate, invalidate, join, sign_out) x all 32 initial field subsets x per-request replies (valid, error status x 11 body shapes, odd 200/204 bodies). Oracle per step: authenticated predicate, no request when credentials are missing, exact endpoint/JSON payload/content type as received by the stand-in, stored tokens after success, YggdrasilError fields or malformed message on error, credentials bit-identical after failure, validate true only for 204. Single-threaded: the fault dimension is the reply sequence.',
         'DESIGN.md 3/C19'),
 'C12': ('exploration', 'seeded schedule search (deterministic simulation, baton-passed threads, line/bytecode pre-emption) + server-side history oracle',
         'Exhaustive placement of one forced context switch at every choice point of small two-writer scenarios, then seeded search (random walk and PCT-style priorities) over interleavings of 1-4 writer threads (also: bursts of 301-650 queued packets, and a second Connection object with its own writers in the same process), the networking thread and a final disconnect, with pre-emption at every source line (or bytecode) of connection.py/packet.py/encryption.py and at every lock and socket call; the independent server parses (and decrypts) the byte stream and checks whole frames, at-most/exactly-once tags, per-thread queue order, flush-before-close and nothing-after-immediate-disconnect over the global event order. Sampling, not enumeration: a clean batch is evidence for the explored schedules only.',
         'DESIGN.md 3/C12'),
 'C15': ('fault_enumeration', 'crash-point enumeration under deterministic simulation (FIN after every byte offset of reference conversations) + bounded-liveness oracle',
         'Every prefix length 0..N of the server stream of each reference conversation (status call, status-then-login on either connection, login with compression, with encryption, with both, plain play; 2 (quick) / all boundary protocol versions (thorough), incl. a default version outside the allowed set) is executed, followed by FIN, by RST, and once more in a process whose descriptor numbers lie beyond the range of select() (a failing system call: ValueError); the run must end within a bounded number of I/O operations after EOF (spin detector, deadlock detector on the virtual clock), report an error or take the documented status fallback, and deliver only completely sent packets. Exhaustive over the listed conversations, not over all conversations.',
         'DESIGN.md 3/C15'),
 'C16': ('exploration', 'enumerated + seeded call histories x seeded schedule search under deterministic simulation, linearizability-style refusal windows',
         'All single-thread histories of length <= 3 over {connect,status,disconnect,disconnect(immediate)} x 5 server line-ups are enumerated under several schedules each and under every placement of one forced context switch at I/O granularity; longer and two-thread histories with reconnecting listeners/handlers against accepting, refusing, disconnecting, cutting and resetting servers are sampled. Oracles over the global event order: disconnect never raises, I/O intervals of networking threads never overlap, refusal required/forbidden/either windows, accepted connect is usable (condition-based keep-alive probe), disconnect sticks, no stale-thread action on a newer session, sessions started from listeners/handlers come up, a connect() from an exception handler is not refused when the failed thread is the only one alive and no hand-over is pending, bounded termination. Servers may compress, stall, linger in callbacks; hand-over stress family. Three genuine defects are listed in known_findings.json.',
         'DESIGN.md 3/C16'),
}

NA = {
 'C02': 'pure encode/decode functions of a value or byte string: no schedule, clock, peer or fault in the statement (truncation is an input, not an event); input generation is not simulation',
 'C03': 'pure function of a byte string / integer; termination and canonicity are quantified over inputs only',
 'C04': 'pure bit-packing function of (coordinates, protocol number)',
 'C05': 'pure write-then-read round trip per (class, version, field values); no concurrency, time or I/O fault involved',
 'C06': 'finite static table property decided by enumerating 250 x 8 id tables; enumeration of a static table is not simulation',
 'C07': 'differential comparison of pure encoders against documentation tables; nothing to schedule or fault',
 'C08': 'order-theoretic facts about static tables and a sequential re-initialisation; no concurrency, time or fault in the statement',
 'C17': 'pure hash-formatting function of its three inputs',
 'C20': 'sequential folds of packets over in-memory tracker objects and algebraic laws of value types; no nondeterminism to control',
}


def main():
    checks = []
    for pid in sorted(CHECKS):
        level, tech, text, ref = CHECKS[pid]
        checks.append({
            'property_id': pid,
            'quick_cmd': './check %s --tier quick' % pid,
            'thorough_cmd': './check %s --tier thorough' % pid,
            'evidence_file': 'evidence/%s.json' % pid,
            'replay_cmd_template': './check %s --replay {path}' % pid,
            'engine': 'pycraft-dst',
            'level_claimed': {'category': level, 'text': text,
                              'design_ref': ref},
            'level_note': 'Trusted: packet ids per protocol version and the version order are taken from pyCraft (C06-C08 not decided here); the socket/select model is validated against real loopback sockets by selftest/socket_conformance.py; pre-emption granularity is a source line or bytecode of the instrumented pyCraft modules; the server stub, wire codec, CFB8 and RSA un-padding in sim/ are independent of pyCraft.',
            'technique': tech,
        })
    claimed = set(CHECKS)
    na = [{'property_id': p, 'reason': r} for p, r in sorted(NA.items())]
    pending = [p for p in ('C01', 'C09', 'C10', 'C11', 'C13', 'C14', 'C18',
                           'C19') if p not in claimed]
    for p in pending:
        na.append({'property_id': p,
                   'reason': 'not claimed yet: check under construction '
                             '(deterministic simulation applies; see '
                             'DESIGN.md)'})
    m = {
        'version': 1,
        'setup_cmd': '/venv/bin/python -c "import minecraft, cryptography, requests, sys; assert sys.version_info >= (3, 12)"',
        'hooks': {
            'guard': 'PYCRAFT_VERIF_SIM',
            'enable': 'no source hooks: the simulator replaces module-level names (socket, select, RLock, timeit, os, uuid, requests) and NetworkingThread.start/join/is_alive at run time and uses sys.monitoring for pre-emption; PYCRAFT_VERIF_SIM is not read by the library',
            'baseline_off_cmd': 'cd /repo && /venv/bin/python -m pytest -ra -q -p no:cacheprovider --timeout=900 --continue-on-collection-errors',
            'source_commits': [],
            'add_only': True,
        },
        'engines': [{
            'name': 'pycraft-dst', 'path': 'sim/',
            'serves_properties': sorted(claimed),
            'kind_free_text': 'deterministic simulator: baton-passed OS threads, virtual clock, simulated TCP/select, seeded choice tape with shrinking and replay, independent Minecraft server stub',
        }],
        'checks': checks,
        'not_applicable': na,
        'notes': 'Genuine defects repaired in /repo by fix: commits d23e0de, b8b77d4, 566fb9b, 4765f55, e19479c, 8c5a6ae (see known_findings.json and DESIGN.md 14.3); four further genuine C16 defects are recorded as known findings.',
    }
    with open(os.path.join(V, 'MANIFEST.json'), 'w') as f:
        json.dump(m, f, indent=1)
    print('wrote MANIFEST.json with', len(checks), 'checks')


if __name__ == '__main__':
    main()

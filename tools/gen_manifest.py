#!/venv/bin/python
"""Regenerates MANIFEST.json from the table below."""
import json
import os

V = os.path.dirname(os.path.dirname(os.path.abspath(__file__)))

CHECKS = {
 'C12': ('exploration', 'seeded schedule search (deterministic simulation, baton-passed threads, line/bytecode pre-emption) + server-side history oracle',
         'Seeded search over interleavings of 1-4 writer threads, the networking thread and a final disconnect, with pre-emption at every source line (or bytecode) of connection.py/packet.py/encryption.py and at every lock and socket call; the independent server parses (and decrypts) the byte stream and checks whole frames, at-most/exactly-once tags, per-thread queue order, flush-before-close and nothing-after-immediate-disconnect over the global event order. Sampling, not enumeration: a clean batch is evidence for the explored schedules only.',
         'DESIGN.md 3/C12'),
 'C15': ('fault_enumeration', 'crash-point enumeration under deterministic simulation (FIN after every byte offset of reference conversations) + bounded-liveness oracle',
         'Every prefix length 0..N of the server stream of each reference conversation (status call, status-then-login on either connection, login with compression, with encryption, with both, plain play; two to six protocol versions) is executed, followed by FIN; the run must end within a bounded number of I/O operations after EOF (spin detector, deadlock detector on the virtual clock), report an error or take the documented status fallback, and deliver only completely sent packets. Exhaustive over the listed conversations, not over all conversations.',
         'DESIGN.md 3/C15'),
 'C16': ('exploration', 'enumerated + seeded call histories x seeded schedule search under deterministic simulation, linearizability-style refusal windows',
         'All single-thread histories of length <= 3 over {connect,status,disconnect,disconnect(immediate)} x 5 server line-ups are enumerated under several schedules each; longer and two-thread histories with reconnecting listeners/handlers against accepting, refusing, disconnecting, cutting and resetting servers are sampled. Oracles over the global event order: disconnect never raises, I/O intervals of networking threads never overlap, refusal required/forbidden/either windows, accepted connect is usable (condition-based keep-alive probe), disconnect sticks, bounded termination. Three genuine defects are listed in known_findings.json.',
         'DESIGN.md 3/C16'),
}

NA = {
 'C02': 'pure encode/decode functions of a value or byte string: no schedule, clock, peer or fault in the statement (truncation is an input, not an event); input generation is not simulation',
 'C03': 'pure function of a byte string / integer; termination and canonicity are quantified over inputs only',
 'C04': 'pure bit-packing function of (coordinates, protocol number)',
 'C05': 'pure write-then-read round trip per (class, version, field values); no concurrency, time or I/O fault involved',
 'C06': 'finite static table property decided by enumerating 250 x 8 id tables; enumeration of a static table is not simulation',
 'C07': 'differential comparison of pure encoders against documentation tables; nothing to schedule or fault',
 'C08': 'order-theoretic facts about static tables and a sequential re-initialisation; no concurrency, time or fault in the statement',
 'C17': 'pure hash-formatting function of its three inputs',
 'C20': 'sequential folds of packets over in-memory tracker objects and algebraic laws of value types; no nondeterminism to control',
}


def main():
    checks = []
    for pid in sorted(CHECKS):
        level, tech, text, ref = CHECKS[pid]
        checks.append({
            'property_id': pid,
            'quick_cmd': './check %s --tier quick' % pid,
            'thorough_cmd': './check %s --tier thorough' % pid,
            'evidence_file': 'evidence/%s.json' % pid,
            'replay_cmd_template': './check %s --replay {path}' % pid,
            'engine': 'pycraft-dst',
            'level_claimed': {'category': level, 'text': text,
                              'design_ref': ref},
            'level_note': 'Trusted: packet ids per protocol version and the version order are taken from pyCraft (C06-C08 not decided here); the socket/select model is validated against real loopback sockets by selftest/socket_conformance.py; pre-emption granularity is a source line or bytecode of the instrumented pyCraft modules; the server stub, wire codec, CFB8 and RSA un-padding in sim/ are independent of pyCraft.',
            'technique': tech,
        })
    claimed = set(CHECKS)
    na = [{'property_id': p, 'reason': r} for p, r in sorted(NA.items())]
    pending = [p for p in ('C01', 'C09', 'C10', 'C11', 'C13', 'C14', 'C18',
                           'C19') if p not in claimed]
    for p in pending:
        na.append({'property_id': p,
                   'reason': 'not claimed yet: check under construction '
                             '(deterministic simulation applies; see '
                             'DESIGN.md)'})
    m = {
        'version': 1,
        'setup_cmd': '/venv/bin/python -c "import minecraft, cryptography, requests, sys; assert sys.version_info >= (3, 12)"',
        'hooks': {
            'guard': 'PYCRAFT_VERIF_SIM',
            'enable': 'no source hooks: the simulator replaces module-level names (socket, select, RLock, timeit, os, uuid, requests) and NetworkingThread.start/join/is_alive at run time and uses sys.monitoring for pre-emption; PYCRAFT_VERIF_SIM is not read by the library',
            'baseline_off_cmd': 'cd /repo && /venv/bin/python -m pytest -ra -q -p no:cacheprovider --timeout=900 --continue-on-collection-errors',
            'source_commits': [],
            'add_only': True,
        },
        'engines': [{
            'name': 'pycraft-dst', 'path': 'sim/',
            'serves_properties': sorted(claimed),
            'kind_free_text': 'deterministic simulator: baton-passed OS threads, virtual clock, simulated TCP/select, seeded choice tape with shrinking and replay, independent Minecraft server stub',
        }],
        'checks': checks,
        'not_applicable': na,
        'notes': 'Genuine defects repaired in /repo by fix: commits d23e0de, b8b77d4, 566fb9b, 4765f55 (see known_findings.json and DESIGN.md 12); three further genuine C16 defects are recorded as known findings.',
    }
    with open(os.path.join(V, 'MANIFEST.json'), 'w') as f:
        json.dump(m, f, indent=1)
    print('wrote MANIFEST.json with', len(checks), 'checks')


if __name__ == '__main__':
    main()

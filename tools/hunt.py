#!/venv/bin/python
"""One scenario, many schedules: runs the scenario of a replay file under N
fresh seeded tapes (the check's own policy mix) and lists every violation
signature met, with the first tape that produced it.

usage: tools/hunt.py <PROP> <replay.json> <N> [<out-replay.json> [<signature-substring>]]

Used to decide whether a violation seen on a modified tree is also reachable
on the unchanged one (DESIGN 14.4 #26): the tape of a replay does not carry
over between trees whose yield points differ, the scenario does.
"""
import copy
import json
import os
import sys

if os.environ.get('PYTHONHASHSEED') is None:
    os.execve(sys.executable, [sys.executable] + sys.argv,
              dict(os.environ, PYTHONHASHSEED='0'))
VERIF = os.path.dirname(os.path.dirname(os.path.abspath(__file__)))
sys.path.insert(0, VERIF)


def main():
    from sim import seams
    seams.import_minecraft()
    from props import load
    from sim.tape import Tape, make_rng
    prop = load(sys.argv[1])
    rp = json.load(open(sys.argv[2]))
    n = int(sys.argv[3])
    found = {}
    for i in range(n):
        sc = copy.deepcopy(rp['scenario'])
        sc['_prop'] = prop.ID
        tape = Tape(make_rng('hunt', i), prop.policy(make_rng('huntp', i), sc))
        res = prop.execute(sc, tape)
        for sig, d in res.violations:
            if sig not in found:
                found[sig] = (i, tape.sparse(), d)
                print(i, sig, json.dumps(d, default=str)[:300])
                sys.stdout.flush()
    print('done', {k: v[0] for k, v in found.items()})
    if len(sys.argv) > 4 and found:
        want = sys.argv[5] if len(sys.argv) > 5 else ''
        ks = [s for s in found if want in s]
        if ks:
            json.dump({'property': prop.ID, 'signature': ks[0], 'seed': None,
                       'index': None, 'minimized': False,
                       'detail': found[ks[0]][2],
                       'scenario': rp['scenario'], 'tape': found[ks[0]][1]},
                      open(sys.argv[4], 'w'), default=str)


if __name__ == '__main__':
    main()

import importlib


def load(prop_id):
    return importlib.import_module('props.' + prop_id.lower())


CLAIMED = ['C01', 'C09', 'C10', 'C11', 'C12', 'C13', 'C14', 'C15', 'C16',
           'C18', 'C19']

"""C14 - networking-thread exceptions are contained and routed like try/except."""
import copy
import itertools
import sys
import zlib

from sim.world import World
from sim.tape import Tape, Policy, make_rng
from sim.ids import ids_for
from sim.sched import DONE
from sim import wire
from . import common

ID = 'C14'
LEVEL = 'fault_enumeration'
# scenario variants and fault kinds mixed into the seeded part (reported in
# the evidence; DESIGN 14.6 says where each came from)
VARIANTS = [
    "gaps between packets, slow origin, persistent outgoing-listener fault",
    "negotiation-phase origins, OSError fault classes",
    "second thread connecting while the fault is handled (adversarial schedules)",
    "final handler that disconnects and lingers",
    "another thread keeping the write lock busy",
    "online-mode (encrypted) sessions: fault after the cipher was installed"
]
RUNS = {'quick': 2500, 'thorough': 150000}     # sampled part
WALL_CAP = {'quick': 240, 'thorough': 3300}

# class name -> set of filter names it is an instance of
ISA = {
    'A': {'A', 'Exception'},
    'B': {'B', 'A', 'Exception'},
    'C': {'C', 'Exception'},
    'LoginDisconnect': {'LoginDisconnect', 'ConnectionFailure', 'Exception'},
    'InvalidState': {'InvalidState', 'ConnectionFailure', 'Exception'},
    'ValueError': {'ValueError', 'Exception'},
    'OSError': {'OSError', 'Exception'},
    'BrokenPipeError': {'BrokenPipeError', 'OSError', 'Exception'},
    'unknown': {'Exception'},
}
ORIGINS = [
    ('early-listener', 'status'), ('early-listener', 'login'),
    ('early-listener', 'play'), ('listener', 'status'), ('listener', 'login'),
    ('listener', 'play'), ('reaction-login-disconnect', 'login'),
    ('reaction-status-json', 'status'), ('decoder:bad-utf8', 'play'),
    ('decoder:truncated-field', 'play'), ('decoder:overlong-varint', 'play'),
    ('decoder:corrupt-zlib', 'play'), ('decoder:wrong-inflated-size', 'play'),
    ('outgoing-listener', 'play'), ('exit-callback', 'play'),
    # the status phase of version negotiation (connect() with several
    # allowed versions) has its own reactor and its own notion of which
    # failures are not fatal (end-of-stream -> documented fallback)
    # (an ORDINARY listener of the status response runs after the reaction
    # has already opened the login connection - not a fault 'in' that phase)
    ('early-listener', 'negotiate'),
    ('reaction-status-empty', 'negotiate'),
    ('reaction-status-json', 'negotiate'),
    # the status connection ends without an answer (not fatal: fallback to
    # the default version) and the TCP connect of that fallback is refused:
    # the error comes out of the reactor's own exception hook
    ('fallback-connect-refused', 'negotiate'),
]
FINALS = ['none', 'false', 'return', 'raise:A', 'raise:C']
ENUM_HANDLERS = [
    {'types': [], 'early': False, 'do': 'return'},
    {'types': ['A'], 'early': False, 'do': 'return'},
    {'types': ['C'], 'early': False, 'do': 'return'},
    {'types': [], 'early': False, 'do': 'raise:C'},
    {'types': ['A'], 'early': False, 'do': 'raise:B'},
    {'types': ['Exception'], 'early': True, 'do': 'raise:A'},
    {'types': ['KeyError'], 'early': False, 'do': 'return'},
]
_enum = []


def enumerated():
    if _enum:
        return _enum
    chains = [[]]
    for h in ENUM_HANDLERS:
        chains.append([h])
    for a, b in itertools.product(ENUM_HANDLERS, repeat=2):
        chains.append([a, b])
    for origin in ORIGINS:
        for final in FINALS:
            for ch in chains:
                _enum.append((origin, final, ch))
    return _enum


def total(tier, seed):
    return len(enumerated()) + RUNS[tier]


def scenario_for(seed, index, tier):
    rng = make_rng('scenario', ID, seed, index)
    en = enumerated()
    sup = common.supported()
    if index < len(en):
        (origin, state), final, chain = en[index]
        chain = copy.deepcopy(chain)
        proto = 757 if index % 3 else common.pick_proto(rng, sup)
        exc0 = (['A', 'OSError', 'BrokenPipeError'] if state == 'negotiate'
                else ['A', 'B', 'C'])[index % 3]
    else:
        origin, state = rng.choice(ORIGINS)
        # 'disconnect-slow': a final handler that gives up - it calls
        # disconnect() (also on a session an earlier handler has just
        # started), takes its time, and returns
        final = rng.choice(FINALS + ['raise:B', 'disconnect-slow'])
        proto = common.pick_proto(rng, sup)
        # OSError family only from incoming listeners: in the write phase
        # pyCraft deliberately treats I/O errors differently (they are held
        # back and dropped if a disconnect packet follows)
        exc0 = rng.choice(['A', 'B', 'C', 'OSError', 'BrokenPipeError']
                          if origin in ('early-listener', 'listener')
                          else ['A', 'B', 'C'])
        chain = []
        for _ in range(rng.randint(0, 4)):
            chain.append({
                'types': rng.choice([[], ['A'], ['B'], ['C'], ['A', 'C'],
                                     ['Exception'], ['KeyError'],
                                     ['LoginDisconnect'],
                                     ['ConnectionFailure'], ['ValueError'],
                                     ['InvalidState'], ['OSError']]),
                'early': rng.random() < 0.3,
                'do': rng.choice(['return', 'return', 'raise:A', 'raise:B',
                                  'raise:C', 'reconnect'])})
    if origin.startswith('decoder:'):
        # the decoder's exception type is not predicted: only type-agnostic
        # filters keep the reference model sound
        for h in chain:
            if h['types'] not in ([], ['Exception'], ['KeyError']):
                h['types'] = []
    for i, h in enumerate(chain):
        h['id'] = i
        if h['do'] == 'reconnect' and index >= len(en):
            h['linger_us'] = rng.choice([0, 0, 100000, 5000000])
    gaps = [(0, 200000), (0, 20000), (20000, 20000), (1000, 0), (0, 0),
            (200000, 1000)]
    sc = {'proto': proto, 'origin': origin, 'state': state, 'exc0': exc0,
          'handlers': chain, 'final': final,
          'gaps_us': list(gaps[index % len(gaps)] if index < len(en)
                          else rng.choice(gaps)),
          'origin_delay_us': [0, 30000, 0, 300000][(index // 7) % 4]
          if index < len(en) else rng.choice([0, 0, 30000, 300000]),
          'net': {'latency_us': 100,
                  'segment': index >= len(en) and rng.random() < 0.3},
          'sched': {'granularity': 'io' if index < len(en) or
                    rng.random() < 0.6 else 'line', 'max_steps': 300000},
          'rand_seed': rng.randrange(2**32)}
    if index >= len(en) and rng.random() < 0.12 and \
            not any(h['do'] == 'reconnect' for h in chain) and \
            state in ('login', 'play'):
        # while the fault is being handled, another thread asks the same
        # object to connect again (handlers may be slow): once accepted,
        # that connection must come up, whatever the dying thread is doing
        sc['racer'] = {'handler_sleep_us': rng.choice([0, 0, 2000, 100000]),
                       'retry_us': rng.choice([20, 100, 1000, 20000])}
        sc['sched']['granularity'] = 'line'
    if index >= len(en) and not sc.get('racer') and \
            state in ('login', 'play') and rng.random() < 0.1:
        # another thread keeps the write lock busy most of the time (forced
        # writes whose early outgoing listener is slow and drops the packet)
        # while the fault happens and is handled: the dying thread's
        # teardown has to wait its turn, not be skipped
        sc['holder'] = {'hold_us': rng.choice([20000, 200000, 1500000]),
                        'times': rng.choice([3, 8])}
    if index >= len(en) and make_rng('enc', ID, seed, index).random() < 0.2:
        # online-mode sessions: the fault strikes after the cipher has been
        # installed (connection.socket is the cipher wrapper by then)
        sc['encrypted'] = True
    build_server(sc)
    return sc


def build_server(sc):
    proto = sc['proto']
    ids = ids_for(proto)
    origin = sc['origin']
    good = {'login': [['success']],
            'play': [['ka', 9], ['expect', 1],
                     ['disconnect', '{"text":"bye"}']],
            'status': {'mode': 'reply',
                       'json': '{"version":{"name":"s","protocol":%d},'
                               '"description":{"text":"x"}}' % proto}}
    first = copy.deepcopy(good)
    compress = None
    if origin == 'reaction-login-disconnect':
        first['login'] = [['disconnect', '{"text":"no entry"}']]
    elif origin == 'reaction-status-json':
        first['status'] = {'mode': 'reply', 'json': '{not json'}
    elif origin == 'reaction-status-empty':
        first['status'] = {'mode': 'reply', 'json': '{}'}
    elif origin == 'fallback-connect-refused':
        first['status'] = {'mode': 'close_on_request'}
        sc['net']['refuse'] = [1]
    elif origin.startswith('decoder:'):
        kind = origin.split(':')[1]
        if kind in ('corrupt-zlib', 'wrong-inflated-size'):
            compress = 0
            first['login'] = [['compress', 0], ['success']]
        if kind == 'bad-utf8':
            payload = wire.varint(ids['cb.play.chat']) + \
                wire.varint(2) + b'\xff\xfe' + b'\x00' + bytes(16)
        elif kind == 'truncated-field':
            payload = wire.varint(ids['cb.play.keep_alive']) + \
                (b'\x00\x01\x02' if ids['later'][339] else b'\x80')
        elif kind == 'overlong-varint':
            payload = wire.varint(ids['cb.play.disconnect']) + \
                b'\x80\x80\x80\x80\x80\x80\x80\x01' + b'x' * 8
        else:
            payload = wire.varint(ids['cb.play.chat']) + \
                wire.string('{"text":"z"}') + b'\x00' + bytes(16)
        if kind == 'corrupt-zlib':
            inner = wire.varint(len(payload)) + b'\x78\x9c\xde\xad\xbe\xef' \
                b'not zlib at all'
            raw = wire.varint(len(inner)) + inner
        elif kind == 'wrong-inflated-size':
            inner = wire.varint(len(payload) + 7) + zlib.compress(payload)
            raw = wire.varint(len(inner)) + inner
        else:
            raw = wire.frame(payload, compress)
        first['play'] = [['ka', 1], ['raw', raw.hex()], ['ka', 2]]
    elif origin in ('early-listener', 'listener', 'outgoing-listener'):
        # the server's own disconnect may arrive right behind the packet
        # whose handling fails, within the same 50 ms read wait, or later
        p1, p2 = sc.get('gaps_us') or (0, 200000)
        first['play'] = [['ka', 1]] + ([['pause', p1]] if p1 else []) + \
            [['ka', 2]] + ([['pause', p2]] if p2 else []) + \
            [['disconnect', '{"text":"late"}']]
    sc['server'] = {'conns': [first, copy.deepcopy(good),
                              copy.deepcopy(good)]}
    if sc.get('encrypted'):
        for c in sc['server']['conns']:
            c['login'] = [['encrypt', {'bits': 1024, 'token_hex': 'c0ffee14',
                                       'server_id': '-'}]] + c['login']


def policy(rng, scenario):
    if scenario.get('racer'):
        # two threads inside connect() / the teardown: schedule adversarially
        if rng.random() < 0.5:
            d = rng.choice([2, 3, 4])
            return Policy(p_event=rng.choice([0, 0.1]), pct_depth=d,
                          pct_len=rng.choice([100, 400, 1500]),
                          name='c14-racer-pct%d' % d)
        return Policy(p_sched=rng.choice([0.05, 0.2, 0.5]),
                      p_event=rng.choice([0, 0.1, 0.5]), name='c14-racer')
    return Policy(p_sched=rng.choice([0, 0.02]),
                  p_event=rng.choice([0, 0.1, 0.5]), p_seg=0.3, p_short=0.3,
                  name='c14')


def model(sc, e0_class):
    """Reference try/except chain.  Returns expected handler calls
    [(hid|'final', label)], label of the recorded exception, whether the
    thread re-raises, whether a handler reconnected."""
    order = []
    for h in sc['handlers']:
        if h['early']:
            order.insert(0, h)
        else:
            order.append(h)
    calls = []
    cur, cur_cls = 'E0', e0_class
    caught = False
    reconnected = False
    for h in order:
        if not h['types'] or set(h['types']) & ISA[cur_cls]:
            calls.append((h['id'], cur))
            do = h['do']
            if do == 'return':
                caught = True
                break
            if do == 'reconnect':
                if not reconnected:
                    reconnected = True
                    caught = True
                    break
                cur, cur_cls = 'H%d' % h['id'], 'InvalidState'
                continue
            cur, cur_cls = 'H%d' % h['id'], do.split(':')[1]
    f = sc['final']
    if f not in ('none', 'false'):
        calls.append(('final', cur))
        if f.startswith('raise:'):
            cur, cur_cls = 'F', f.split(':')[1]
    reraise = f == 'none' and not caught
    return calls, cur, reraise, reconnected


def execute(scenario, tape):
    w = World(scenario, tape)
    st = {'calls': [], 'labels': {}, 'exits': 0, 'objs': [],
          'fired': False, 'in_play': False}
    ids = ids_for(scenario['proto'])

    def build(w):
        from minecraft.networking.connection import Connection
        from minecraft.networking.packets import (Packet, clientbound as cb,
                                                   serverbound as sb)
        import minecraft.exceptions as X

        class A(Exception):
            pass

        class B(A):
            pass

        class C(Exception):
            pass
        CLS = {'A': A, 'B': B, 'C': C, 'Exception': Exception,
               'OSError': OSError, 'BrokenPipeError': BrokenPipeError,
               'KeyError': KeyError, 'ValueError': ValueError,
               'LoginDisconnect': X.LoginDisconnect,
               'ConnectionFailure': X.ConnectionFailure,
               'InvalidState': X.InvalidState}

        def label(e, new=None):
            for obj, lab in st['objs']:
                if obj is e:
                    return lab
            lab = new or ('E0' if not st['objs'] else '?%d' % len(st['objs']))
            st['objs'].append((e, lab))
            return lab

        def raise_origin(persistent=False):
            if st['fired']:
                if persistent and not st.get('first_session_over') and \
                        len(w.net.conns) == 1:
                    # a listener that is simply broken fails every time it
                    # is called during the session (not only once)
                    raise CLS[scenario['exc0']]('origin again')
                return
            st['fired'] = True
            if scenario.get('origin_delay_us'):
                # a slow listener: the world moves on before it fails
                w.sleep(scenario['origin_delay_us'])
            e = CLS[scenario['exc0']]('origin')
            label(e, 'E0')
            raise e

        def make_handler(h):
            def fn(e, info):
                st['calls'].append((h['id'], label(e),
                                    info[1] is e))
                if scenario.get('racer') and \
                        scenario['racer']['handler_sleep_us']:
                    w.sleep(scenario['racer']['handler_sleep_us'])
                do = h['do']
                if do == 'reconnect':
                    try:
                        conn.connect()
                        st['reconnected'] = True
                        if h.get('linger_us'):
                            # ... and stays in the handler for a while
                            w.sleep(h['linger_us'])
                    except Exception as ne:
                        label(ne, 'H%d' % h['id'])
                        raise
                elif do.startswith('raise:'):
                    ne = CLS[do.split(':')[1]]('from handler %d' % h['id'])
                    label(ne, 'H%d' % h['id'])
                    raise ne
            return fn

        f = scenario['final']
        if f == 'none':
            final = None
        elif f == 'false':
            final = False
        else:
            def final(e, info):
                st['calls'].append(('final', label(e), info[1] is e))
                if f == 'disconnect-slow':
                    st['final_disconnect'] = w.api('disconnect',
                                                   conn.disconnect)
                    w.sleep(120000)
                if f.startswith('raise:'):
                    ne = CLS[f.split(':')[1]]('from final')
                    label(ne, 'F')
                    raise ne

        def on_exit():
            st['exits'] += 1
            if scenario['origin'] == 'exit-callback':
                raise_origin()
        allowed = [scenario['proto']]
        if scenario['state'] == 'negotiate':
            allowed.append(next(p for p in common.supported()
                                if p != scenario['proto']))
        conn = Connection('sim.example', 25565, username='thrower',
                          allowed_versions=allowed,
                          handle_exception=final, handle_exit=on_exit)
        w.conn = conn
        for h in scenario['handlers']:
            conn.register_exception_handler(
                make_handler(h), *[CLS[t] for t in h['types']],
                early=h['early'])
        origin, state = scenario['origin'], scenario['state']
        trigger = {'status': cb.status.ResponsePacket,
                   'negotiate': cb.status.ResponsePacket,
                   'login': cb.login.LoginSuccessPacket,
                   'play': cb.play.KeepAlivePacket}[state]
        if origin in ('early-listener', 'listener'):
            conn.register_packet_listener(lambda p: raise_origin(), trigger,
                                          early=(origin == 'early-listener'))
        elif origin == 'outgoing-listener':
            conn.register_packet_listener(
                lambda p: raise_origin(persistent=True),
                sb.play.KeepAlivePacket, outgoing=True)
        conn.register_packet_listener(
            lambda p: st.__setitem__('in_play', True),
            cb.login.LoginSuccessPacket)

        def quiet():
            return all(t.state == DONE for t in w.sim.threads
                       if t.kind == 'net')

        def user():
            if state == 'status':
                st['call'] = w.api('status', conn.status,
                                   handle_status=False, handle_ping=False)
            else:
                st['call'] = w.api('connect', conn.connect)
            st['connect_returned'] = True
            st['quiet1'] = w.wait_until(quiet, 60000000)
            st['first_session_over'] = True
            st['exception_attr'] = getattr(conn, 'exception', None)
            st['exc_info_attr'] = getattr(conn, 'exc_info', None)
            st['conns_before_again'] = len(w.net.conns)
            st['exits_before_again'] = st['exits']
            if not st.get('reconnected') and not scenario.get('racer'):
                st['again'] = w.api('connect', conn.connect)
                st['quiet2'] = w.wait_until(quiet, 60000000)
        w.sim.spawn(user, 'user0')

        def racer():
            w.wait_until(lambda: st['fired'] or st.get('first_session_over'),
                         60000000)
            for _ in range(400):
                r = w.api('connect', conn.connect)
                if r.ok or type(r.exc).__name__ != 'InvalidState':
                    st['racer'] = r
                    st['racer_conns'] = len(w.net.conns)
                    return
                w.sleep(scenario['racer']['retry_us'])
        if scenario.get('racer'):
            w.sim.spawn(racer, 'user1')
        markers = []

        def on_marker(p):
            if any(p is m for m in markers):
                w.sleep(scenario['holder']['hold_us'])
                from minecraft.exceptions import IgnorePacket
                raise IgnorePacket

        def lock_holder():
            w.wait_until(lambda: st.get('connect_returned') or
                         st.get('first_session_over'), 30000000)
            for _ in range(scenario['holder']['times']):
                if st.get('first_session_over'):
                    break
                m = sb.play.KeepAlivePacket(keep_alive_id=0)
                markers.append(m)
                w.api('held-write', conn.write_packet, m, force=True)
                w.sleep(50)
        if scenario.get('holder'):
            conn.register_packet_listener(on_marker, Packet, early=True,
                                          outgoing=True)
            w.sim.spawn(lock_holder, 'user2')

    w.run(build)
    res = common.result_from_world(w)
    check(scenario, w, st, res, ids)
    return res


def check(scenario, w, st, res, ids):
    sim = w.sim
    V = res.violations

    def ob(n=1):
        res.obligations += n
    res.summary = {'origin': scenario['origin'], 'state': scenario['state'],
                   'exc0': scenario['exc0'], 'final': scenario['final'],
                   'handlers': [(h['types'], h['early'], h['do'])
                                for h in scenario['handlers']],
                   'proto': scenario['proto'], 'end': sim.end_state}
    res.nontrivial = True
    res.state_sigs = [(scenario['origin'], scenario['state'],
                       scenario['final'],
                       tuple((tuple(h['types']), h['early'], h['do'])
                             for h in scenario['handlers']))]
    ob()
    if sim.end_state == 'inconclusive':
        return
    if sim.end_state != 'done':
        V.append(('C14/%s' % sim.end_state, repr(sim.end_detail)))
        return
    for t in sim.threads:
        if t.kind == 'user' and t.exc is not None:
            raise common.HarnessError('user thread raised %r' % (t.exc,))
    if not st['call'].ok:
        V.append(('C14/call-raised', repr(st['call'].exc)[:120]))
        return
    # class of the original exception
    origin = scenario['origin']
    if origin in ('early-listener', 'listener', 'outgoing-listener',
                  'exit-callback'):
        e0 = scenario['exc0']
        ob()
        if not st['fired']:
            V.append(('C14/fault-origin-not-reached', origin))
            return
    elif origin == 'reaction-login-disconnect':
        e0 = 'LoginDisconnect'
    elif origin == 'reaction-status-json':
        e0 = 'ValueError'
    elif origin in ('reaction-status-empty', 'fallback-connect-refused'):
        e0 = 'OSError'
    else:
        e0 = 'unknown'
    calls, last, reraise, reconnected = model(scenario, e0)
    got = [(hid, lab) for hid, lab, _same in st['calls']]
    ob(len(calls) + 1)
    if got != calls:
        V.append(('C14/handler-call-sequence', {'got': got, 'want': calls}))
        return
    ob()
    if any(not same for _h, _l, same in st['calls']):
        V.append(('C14/exc-info-does-not-carry-the-exception', None))
    # the thread ended; re-raise iff nothing caught it and no final handler
    nets = [t for t in sim.threads if t.kind == 'net']
    ob(2)
    if not st.get('quiet1'):
        V.append(('C14/networking-thread-did-not-end', None))
        return
    first = nets[0]

    def lab_of(e):
        for obj, lab in st['objs']:
            if obj is e:
                return lab
        return None if e is None else 'unlabelled:%s' % type(e).__name__
    raised = first.exc
    if origin in ('reaction-login-disconnect', 'reaction-status-json',
                  'reaction-status-empty', 'fallback-connect-refused') or \
            origin.startswith('decoder:'):
        # E0 was created inside pyCraft: label it by position
        if st['objs'] and st['objs'][0][1] != 'E0':
            pass
    got_raise = lab_of(raised)
    if reraise:
        if raised is None:
            V.append(('C14/not-re-raised', {'want': last}))
        elif got_raise != last and not (last == 'E0' and calls == [] and
                                        got_raise.startswith('unlabelled')):
            V.append(('C14/re-raised-wrong-exception',
                      {'got': got_raise, 'want': last}))
    elif raised is not None:
        V.append(('C14/re-raised-although-caught-or-final-handler',
                  {'got': got_raise, 'final': scenario['final']}))
    # recorded on the connection
    ob()
    rec = lab_of(st['exception_attr'])
    if rec != last and not (last == 'E0' and calls == [] and rec is not None
                            and rec.startswith('unlabelled')):
        V.append(('C14/recorded-exception', {'got': rec, 'want': last}))
    ob()
    ei = st['exc_info_attr']
    if ei is None or ei[1] is not st['exception_attr']:
        V.append(('C14/recorded-exc-info-mismatch', None))
    # connection closed unless a handler started a new one
    apps = w.server.apps
    ob()
    if bool(st.get('reconnected')) != reconnected:
        V.append(('C14/reconnect-mismatch', {'got': st.get('reconnected'),
                                             'want': reconnected}))
        return
    if scenario.get('racer'):
        r = st.get('racer')
        ob(2)
        if r is not None and not r.ok:
            V.append(('C14/concurrent-connect-raised',
                      repr(r.exc)[:120]))
        elif r is not None:
            res.probes['connect-from-another-thread-during-handling'] = 1
            idx = st['racer_conns'] - 1
            fd = st.get('final_disconnect')
            if scenario['final'] == 'disconnect-slow' and (
                    fd is None or fd.ret is None or fd.ret > r.inv):
                # the application's own final handler calls disconnect():
                # unless that call was over before the other thread's
                # connect() began, it may end that thread's session - the
                # application's doing, not the dying thread's
                res.probes['racer-session-ended-by-final-handler'] = 1
            elif idx < 1 or idx >= len(apps) or \
                    not apps[idx].reached_play:
                V.append(('C14/concurrent-connect-unusable',
                          {'conn': idx, 'conns': len(apps)}))
    elif not reconnected:
        ob(2)
        if not apps or not apps[0].fin_seen:
            V.append(('C14/connection-left-open', None))
        if st['conns_before_again'] != 1:
            V.append(('C14/unexpected-tcp-connections',
                      st['conns_before_again']))
        # afterwards the same object connects again
        ob(3)
        again = st.get('again')
        if again is None or not again.ok:
            V.append(('C14/reconnect-afterwards-failed',
                      repr(again and again.exc)[:120]))
            return
        if len(apps) < 2 or not apps[-1].reached_play:
            V.append(('C14/reconnect-afterwards-no-fresh-conversation',
                      {'conns': len(apps)}))
        elif st['exits'] <= st['exits_before_again']:
            V.append(('C14/reconnect-afterwards-no-clean-exit', None))
    elif scenario['final'] == 'disconnect-slow':
        # the final handler closed what the earlier handler had opened
        ob(2)
        fd = st.get('final_disconnect')
        if fd is not None and not fd.ok:
            V.append(('C14/disconnect-in-final-handler-raised',
                      repr(fd.exc)[:120]))
        # (the faulted connection's own socket is simply dropped when a
        # handler reconnects - CPython closes it when it is collected)
        if any(not a.fin_seen for a in apps[1:]):
            V.append(('C14/connection-left-open', {'conns': len(apps)}))
        res.probes['final-handler-closed-the-handler-s-reconnect'] = 1
    else:
        ob()
        if len(apps) < 2 or not any(a.reached_play for a in apps[1:]):
            V.append(('C14/handler-reconnect-did-not-proceed',
                      {'conns': len(apps)}))
    res.probes['origin:' + origin] = 1
    if any(lab.startswith('H') for _h, lab in calls):
        res.probes['handler-replaced-exception'] = 1
    if reraise:
        res.probes['thread-re-raised'] = 1


def shrink_scenario(sc):
    for j in range(len(sc['handlers'])):
        c = copy.deepcopy(sc)
        del c['handlers'][j]
        for i, h in enumerate(c['handlers']):
            h['id'] = i
        yield c
    if sc['final'] != 'none':
        c = copy.deepcopy(sc)
        c['final'] = 'none'
        yield c
    for j, h in enumerate(sc['handlers']):
        if h['early']:
            c = copy.deepcopy(sc)
            c['handlers'][j]['early'] = False
            yield c
        if h['types']:
            c = copy.deepcopy(sc)
            c['handlers'][j]['types'] = []
            yield c
    if sc['proto'] != 757:
        c = copy.deepcopy(sc)
        c['proto'] = 757
        build_server(c)
        yield c


def evidence(tier, seed, m, d):
    ev = common.base_evidence(
        sys.modules[__name__], tier, seed, m, d,
        rule='enumeration of %d cases = 15 fault origins (early/ordinary '
             'listener in status/login/play, login-disconnect reaction, '
             'invalid status JSON, five malformed-body decoder faults, '
             'outgoing listener in the write phase, exit callback) x 5 final '
             'handler modes x all handler chains of length <= 2 over 7 '
             'handler kinds; plus seeded chains of up to 4 handlers with '
             'random type filters, early flags and return/raise/reconnect '
             'behaviour; compared with a reference try/except model; '
             'evaluations = oracle obligations; every case is non-trivial; '
             'distinct = distinct run digests' % len(enumerated()))
    ev['coverage']['enumerated_cases'] = len(enumerated())
    ev['coverage']['exhaustive'] = False
    return ev

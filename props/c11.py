"""C11 - play: keep-alives and teleports always answered; unknown packets pass."""
import copy
import struct

from sim.world import World
from sim.tape import Tape, Policy, make_rng
from sim.ids import ids_for
from sim import wire
from . import common

ID = 'C11'
LEVEL = 'exploration'
# scenario variants and fault kinds mixed into the seeded part (reported in
# the evidence; DESIGN 14.6 says where each came from)
VARIANTS = [
    "kick (FIN or RST) with failing sends",
    "slow listener",
    "listener-queued bursts of 60..3000 packets",
    "packet sizes at the threshold, thresholds equal to a keep-alive packet",
    "mid-frame stalls of 15..400 s",
    "every chat-component shape of the disconnect reason"
]
RUNS = {'quick': 3000, 'thorough': 120000}
WALL_CAP = {'quick': 200, 'thorough': 3300}

KA_LONG = [0, 1, -1, 127, 128, 255, 256, 2**31 - 1, 2**31, -2**31,
           2**32 - 1, 2**32, 2**63 - 1, -2**63, -2**63 + 1, 1234567890123]
KA_VARINT = [0, 1, 127, 128, 16383, 16384, 2**21 - 1, 2**21, 2**28 - 1,
             2**28, 2**31 - 1, 2**31, 2**32 - 1]
FLOATS = [0.0, 1.5, -3.25, 90.0, 180.0, 359.5, -90.0, 1024.0]
DOUBLES = [0.0, 0.5, -0.5, 64.0, 1e6 + 0.125, -3e7, 255.999, 1e-3]
UUID0 = '0f1e2d3c4b5a69788796a5b4c3d2e1f0'


def gen_history(rng, ids, n, T=None):
    later = ids['later']
    known = set(ids['cb.play.known'])
    items = []
    tid = 1
    for _ in range(n):
        k = rng.random()
        if k < 0.45:
            pool = KA_LONG if later[339] else KA_VARINT
            v = rng.choice(pool) if rng.random() < 0.7 else (
                rng.randrange(-2**63, 2**63) if later[339]
                else rng.randrange(2**32))
            items.append(['ka', v])
        elif k < 0.6:
            items.append(['pos', rng.choice(DOUBLES), rng.choice(DOUBLES),
                          rng.choice(DOUBLES), rng.choice(FLOATS),
                          rng.choice(FLOATS), rng.choice([0, 1, 0x1F, 8]),
                          rng.choice([0, 1, 127, 128, tid, 2**31 - 1]),
                          rng.random() < 0.5])
            tid += 1
        elif k < 0.75:
            uid = rng.choice([i for i in range(0x80) if i not in known]) \
                if rng.random() < 0.75 else \
                rng.choice([0x80, 0xC8, 0x3FFF, 0x4000])
            sizes = [0, 1, 9, 100]
            if T is not None and T >= 2:
                # whole packet (1-byte id + body) of exactly T-1, T, T+1
                # bytes: a vanilla server compresses from size >= T on
                sizes += [T - 2, T - 1, T - 1, T]
            items.append(['unknown', uid, bytes(
                rng.randrange(256) for _ in range(rng.choice(sizes))).hex()])
        elif k < 0.85:
            items.append(['chat', '{"text":"c%d"}' % rng.randrange(1000),
                          rng.choice([0, 1, 2]), UUID0])
        elif k < 0.93:
            items.append(['time', rng.randrange(2**40), rng.randrange(24000)])
        elif k < 0.97:
            items.append(['plugin', 'x:y', '0102'])
        else:
            items.append(['pause', rng.choice([100, 60000, 1000000])])
    return items


def scenario_for(seed, index, tier):
    rng = make_rng('scenario', ID, seed, index)
    sup = common.supported()
    if tier == 'thorough' and index < 4 * len(sup):
        proto = sup[index % len(sup)]
    else:
        proto = common.pick_proto(rng, sup)
    ids = ids_for(proto)
    n = rng.choice([1, 3, 10, 30, 60, 120, 400])
    # 'kick': like a real server, it closes its socket right after the
    # disconnect packet; later client sends may then fail (send-error fault)
    kick = rng.random() < 0.25
    if kick:
        n = rng.choice([1, 3, 10, 30, 40])
    # 9 / 2..3: the size of a Long / small VarInt keep-alive packet itself
    compress = rng.choice([None, None, None, 0, 0, 64, 256, 9, 2, 3])
    hist = gen_history(rng, ids, n, compress)
    if kick:
        hist = [it for it in hist if it[0] != 'pause' or it[1] < 1000000]
        if make_rng('kick-burst', ID, seed, index).random() < 0.3:
            # one burst of exactly as many packets as the client reads per
            # round (50), the disconnect packet being the next one: the
            # answers are written - to a server that has closed - before the
            # disconnect packet is read
            hist = [it for it in hist if it[0] != 'pause']
            while len(hist) < 50:
                hist.append(['ka', 5000 + len(hist)])
            hist = hist[:50]
    user_packets = 0 if kick else rng.choice([0, 0, 0, 5, 320, 650])
    login = ([['compress', compress]] if compress is not None else []) + \
        [['success']]
    answers = sum(1 for it in hist if it[0] in ('ka', 'pos'))
    flood = None
    n_real = sum(1 for it in hist if it[0] != 'pause')
    if not kick and not user_packets and n_real >= 2 and \
            rng.random() < 0.12:
        # the application reacts to one packet by queuing a large burst of
        # its own while answers to neighbouring packets are still queued
        flood = {'at': rng.randint(1, n_real),
                 'n': rng.choice([60, 400, 1200, 3000])}
    play = list(hist)
    if user_packets or flood:
        play.append(['expect', answers + user_packets +
                     (flood['n'] if flood else 0)])
    reason = rng.choice(['{"text":"end of history"}',
                         '{"text":"end of history"}',
                         '{"translate":"disconnect.closed"}',
                         '"Server closed"',
                         '["Server ",{"text":"closed","color":"red"}]',
                         '{"text":"","extra":[{"text":"x"}]}'])
    play.append(['disconnect', reason])
    # a kick may also end in an abortive close (the server still had unread
    # client data, or SO_LINGER 0): the client's first send then fails with
    # ECONNRESET instead of EPIPE, while everything received stays readable
    kick_rst = kick and rng.random() < 0.4
    if kick:
        play.append(['close'])
    v = rng.random()
    net = {'latency_us': rng.choice([50, 200, 3000]), 'send_error': kick}
    if v < 0.4:
        net.update(segment=True, short_read=True,
                   max_seg=rng.choice([3, 64, 1000]))
    if not kick and rng.random() < 0.05:
        # the stream stalls in mid-frame for longer than any sensible I/O
        # timeout, once or twice, somewhere in the play traffic
        net['cut_plan'] = {'0': sorted(rng.sample(range(60, 700),
                                                  rng.choice([1, 2])))}
        net['cut_pause_us'] = rng.choice([15000000, 61000000, 400000000])
    slow = None
    if rng.random() < 0.2:
        # a slow early listener: every k-th packet costs it some time
        slow = {'every': rng.choice([1, 3, 10]),
                'us': rng.choice([1000, 30000, 200000])}
    negotiate = None
    if rng.random() < 0.12:
        # play is reached through version negotiation (status query first,
        # then the thread hand-over to the login connection), and an
        # ordinary listener on the status response may keep the first
        # networking thread busy for a while
        import json as _json
        negotiate = {'linger_us': rng.choice([0, 300000, 1500000, 4000000]),
                     'status': {'status': {'mode': 'reply', 'json': _json.dumps({
                         'version': {'name': 'sim', 'protocol': proto},
                         'description': {'text': 'c11'}})}}}
    # an application thread that keeps writing forced packets of its own
    # for as long as the session lasts (also while the server's disconnect
    # packet is being handled)
    forced_writer = None
    if not kick and rng.random() < 0.12:
        forced_writer = {'n': rng.choice([5, 30, 120]),
                         'gap_us': rng.choice([0, 50, 2000])}
    return {
        'negotiate': negotiate, 'forced_writer': forced_writer,
        'slow_listener': slow, 'flood': flood,
        'proto': proto, 'compress': compress, 'history': hist,
        'user_packets': user_packets, 'kick': kick, 'reason': reason,
        'server': {'conns': ([negotiate['status']] if negotiate else []) + [
            dict({'login': login, 'play': play},
                 **({'close_mode': 'rst'} if kick_rst else {}))]},
        'kick_rst': kick_rst,
        'net': net,
        'sched': {'granularity': 'io' if rng.random() < 0.7 else 'line',
                  'max_steps': 3000000},
        'rand_seed': rng.randrange(2**32),
    }


def policy(rng, scenario):
    return Policy(p_sched=rng.choice([0, 0.01, 0.1]),
                  p_event=rng.choice([0, 0.05, 0.3]),
                  p_io=rng.choice([0.2, 0.8]),
                  p_short=rng.choice([0.05, 0.5]),
                  p_seg=rng.choice([0.05, 0.5]), name='c11')


def execute(scenario, tape):
    w = World(scenario, tape)
    st = {'log': [], 'log_seq': [], 'errs': [], 'exits': [], 'in_play': False}
    ids = ids_for(scenario['proto'])

    def build(w):
        from minecraft.networking.connection import Connection
        from minecraft.networking.packets import Packet, serverbound
        conn = Connection('sim.example', 25565, username='player',
                          allowed_versions=(
                              [scenario['proto'],
                               max(p_ for p_ in common.supported()
                                   if p_ != scenario['proto'])]
                              if scenario.get('negotiate')
                              else [scenario['proto']]),
                          handle_exception=lambda e, i: st['errs'].append(e),
                          handle_exit=lambda: st['exits'].append(w.sim.seq))
        w.conn = conn

        def on_packet(p):
            if p.packet_name == 'login success':
                st['in_play'] = True
                return
            if st['in_play']:
                st['log'].append((p.id, type(p) is Packet))
                st['log_seq'].append(w.sim.seq)
                sl = scenario.get('slow_listener')
                if sl and len(st['log']) % sl['every'] == 0:
                    w.sleep(sl['us'])
                fl = scenario.get('flood')
                if fl and len(st['log']) == fl['at']:
                    for i in range(fl['n']):
                        conn.write_packet(serverbound.play.ChatPacket(
                            message='f%d' % i))
        conn.register_packet_listener(on_packet, Packet, early=True)
        if scenario.get('negotiate') and scenario['negotiate']['linger_us']:
            from minecraft.networking.packets import clientbound
            conn.register_packet_listener(
                lambda p: w.sleep(scenario['negotiate']['linger_us']),
                clientbound.status.ResponsePacket)

        def forced_writer():
            fw = scenario['forced_writer']
            w.wait_until(lambda: st['in_play'] or st['errs'], 30000000)
            st['fw_ok'] = 0
            for i in range(fw['n']):
                if st['errs'] or st['exits']:
                    break
                r = w.api('forced-write', conn.write_packet,
                          serverbound.play.ChatPacket(message='w%d' % i),
                          force=True)
                if r.ok:
                    st['fw_ok'] += 1
                if fw['gap_us']:
                    w.sleep(fw['gap_us'])
        if scenario.get('forced_writer'):
            w.sim.spawn(forced_writer, 'user1')

        def user():
            st['connect'] = w.api('connect', conn.connect)
            w.wait_until(lambda: st['in_play'] or st['errs'], 30000000)
            for i in range(scenario['user_packets']):
                if st['errs']:
                    break
                w.api('write', conn.write_packet,
                      serverbound.play.ChatPacket(message='u%d' % i))
            st['quiet'] = w.wait_until(
                lambda: common.all_net_done(w.sim) and
                (st['exits'] or st['errs']), 600000000)
            st['spawned'] = getattr(conn, 'spawned', None)
        w.sim.spawn(user, 'user0')

    w.run(build)
    res = common.result_from_world(w)
    check(scenario, w, st, res, ids)
    return res


def check(scenario, w, st, res, ids):
    sim = w.sim
    V = res.violations
    hist = scenario['history']
    later = ids['later']

    def ob(n=1):
        res.obligations += n
    counts = {}
    for it in hist:
        counts[it[0]] = counts.get(it[0], 0) + 1
    res.summary = {'proto': scenario['proto'],
                   'compress': scenario['compress'], 'history_len': len(hist),
                   'mix': counts, 'user_packets': scenario['user_packets'],
                   'head': [it[:2] for it in hist[:6]], 'end': sim.end_state}
    res.nontrivial = len(hist) >= 3
    res.state_sigs = [(scenario['proto'], scenario['compress'] is not None)]
    ob()
    if sim.end_state == 'inconclusive':
        return
    if sim.end_state != 'done':
        V.append(('C11/%s' % sim.end_state, repr(sim.end_detail)))
        return
    off = 1 if scenario.get('negotiate') else 0
    if len(w.server.apps) <= off:
        V.append(('C11/no-connection', None))
        return
    app = w.server.apps[off]
    if off:
        res.probes['play-after-version-negotiation'] = 1
    ob()
    if st['errs']:
        if scenario.get('kick') and (sim.stats.get('fault.send-error') or
                                     sim.stats.get('fault.rst')) and \
                all(isinstance(e, OSError) for e in st['errs']) and \
                app.conn.first_send_fail_seq is not None and \
                sum(1 for q in st['log_seq']
                    if q <= app.conn.first_send_fail_seq) < \
                sum(1 for it in hist if it[0] != 'pause'):
            # the client's own send failed on the closed socket while packets
            # BEFORE the server's disconnect packet were still unread, and it
            # gave up (how many more packets it reads before it reports a
            # pending write error is its own business): nothing is claimed
            # about this run.  When the disconnect packet was the very next
            # one to read as the send failed, the verdict stands: reading on
            # is what keeps a kick from being reported as an error.
            res.probes['kick-write-error-before-disconnect-was-read'] = 1
            res.nontrivial = False
            return
        V.append(('C11/error-reported:%s' % type(st['errs'][0]).__name__,
                  str(st['errs'][0])[:200]))
        return
    ob()
    errors = list(app.errors)
    if scenario.get('kick') and (sim.stats.get('fault.send-error') or
                                 sim.stats.get('fault.rst')):
        # a frame whose second send() failed on the dead connection is cut
        # short by the fault itself, not by the client; whatever the client
        # still writes afterwards (e.g. the flush of its disconnect) can no
        # longer be framed by the server
        errors = []
    if errors:
        V.append(('C11/torn-client-stream', errors[:3]))
        return
    # listener log: every packet delivered in order; unknown ids generic
    sent = [it for it in hist if it[0] != 'pause']
    exp_log = []
    for it in sent:
        pid, _body = w.server.encode_play(app, it)
        exp_log.append((pid, it[0] == 'unknown'))
    exp_log.append((ids['cb.play.disconnect'], False))
    ob(len(exp_log))
    if st['log'] != exp_log:
        i = 0
        while i < min(len(st['log']), len(exp_log)) and \
                st['log'][i] == exp_log[i]:
            i += 1
        V.append(('C11/delivery-mismatch',
                  {'at': i, 'got': st['log'][i:i + 2],
                   'want': exp_log[i:i + 2], 'n_got': len(st['log']),
                   'n_want': len(exp_log)}))
        return
    # server-side: answers
    frames = [(seq, pid, bytes(body)) for seq, state, pid, body, meta
              in app.frames if state in ('play', 'paused')]
    ka_id = ids['sb.play.keep_alive']
    want_ka = [wire.i64(it[1]) if later[339] else wire.varint(it[1])
               for it in hist if it[0] == 'ka']
    got_ka = [b for _s, pid, b in frames if pid == ka_id]
    kick = scenario.get('kick')
    ob(len(want_ka) + 1)
    if kick and got_ka == want_ka[:len(got_ka)]:
        # answers written after the server had closed may be lost, but the
        # ones that arrived are the right ones, in order, once each
        res.probes['kick-answers-cut-short'] = \
            int(len(got_ka) < len(want_ka))
    elif got_ka != want_ka:
        if len(got_ka) < len(want_ka):
            kind = 'missing'
        elif len(got_ka) > len(want_ka):
            kind = 'duplicated'
        elif sorted(got_ka) == sorted(want_ka):
            kind = 'reordered'
        else:
            kind = 'wrong-id'
        i = 0
        while i < min(len(got_ka), len(want_ka)) and got_ka[i] == want_ka[i]:
            i += 1
        V.append(('C11/keepalive-%s' % kind,
                  {'at': i, 'n_got': len(got_ka), 'n_want': len(want_ka),
                   'got': got_ka[i:i + 1] and got_ka[i].hex(),
                   'want': want_ka[i:i + 1] and want_ka[i].hex()}))
    pos = [it for it in hist if it[0] == 'pos']
    if later[107]:
        want = [wire.varint(it[7]) for it in pos]
        got = [b for _s, pid, b in frames
               if pid == ids['sb.play.teleport_confirm']]
        ob(len(want) + 1)
        if got != want and not (kick and got == want[:len(got)]):
            V.append(('C11/teleport-confirm-mismatch',
                      {'n_got': len(got), 'n_want': len(want),
                       'got': [g.hex() for g in got[:3]],
                       'want': [x.hex() for x in want[:3]]}))
    else:
        want = [wire.f64(it[1]) + wire.f64(it[2]) + wire.f64(it[3]) +
                wire.f32(it[4]) + wire.f32(it[5]) + b'\x01' for it in pos]
        got = [b for _s, pid, b in frames if pid == ids['sb.play.position']]
        ob(len(want) + 1)
        if got != want and not (kick and got == want[:len(got)]):
            V.append(('C11/position-echo-mismatch',
                      {'n_got': len(got), 'n_want': len(want),
                       'got': [g.hex() for g in got[:2]],
                       'want': [x.hex() for x in want[:2]]}))
    if pos:
        ob()
        if st.get('spawned') is not True:
            V.append(('C11/not-spawned', st.get('spawned')))
    # user packets: all, once, in order
    if scenario['user_packets'] or scenario.get('flood'):
        want = [wire.string('u%d' % i)
                for i in range(scenario['user_packets'])] + \
            [wire.string('f%d' % i)
             for i in range((scenario.get('flood') or {'n': 0})['n'])]
        if scenario.get('flood'):
            res.probes['listener-queued-a-burst'] = 1
        got = [b for _s, pid, b in frames if pid == ids['sb.play.chat']
               and not bytes(b)[1:2] == b'w']
        ob(len(want))
        if got != want:
            V.append(('C11/user-packets-mismatch',
                      {'n_got': len(got), 'n_want': len(want)}))
    if scenario.get('forced_writer'):
        # the other thread's forced packets: whole, in order, none twice
        ws = [bytes(b) for _s, pid, b in frames
              if pid == ids['sb.play.chat'] and bytes(b)[1:2] == b'w']
        nums = []
        for b in ws:
            try:
                nums.append(int(wire.read_string(b, 0)[0][1:]))
            except Exception:
                nums.append(-1)
        ob()
        if nums != sorted(set(nums)) or -1 in nums:
            V.append(('C11/forced-writer-stream', {'seen': nums[:12]}))
        res.probes['forced-writer-alongside'] = 1
    # nothing unexpected on the wire
    allowed = {ka_id, ids['sb.play.chat'], ids['sb.play.position'],
               ids['sb.play.teleport_confirm']}
    extra = [pid for _s, pid, b in frames if pid not in allowed]
    ob()
    if extra:
        V.append(('C11/unexpected-serverbound-frame', extra[:5]))
    # disconnect: client closes after all answers, exit callback once
    ob()
    if not app.fin_seen:
        V.append(('C11/connection-not-closed', None))
    ob()
    if len(st['exits']) != 1:
        V.append(('C11/exit-callback-count', len(st['exits'])))
    ob()
    if not st.get('quiet'):
        V.append(('C11/networking-thread-alive', None))
    if len(sent) > 50:
        res.probes['history-crossed-read-batch'] = 1
    if scenario['user_packets'] > 300:
        res.probes['queue-crossed-write-batch'] = 1


def shrink_scenario(sc):
    hist = sc['history']

    def rebuilt(c):
        answers = sum(1 for it in c['history'] if it[0] in ('ka', 'pos'))
        if c.get('flood'):
            n_real = sum(1 for it in c['history'] if it[0] != 'pause')
            if n_real == 0:
                c['flood'] = None
            else:
                c['flood']['at'] = min(c['flood']['at'], n_real)
        play = list(c['history'])
        if c['user_packets'] or c.get('flood'):
            play.append(['expect', answers + c['user_packets'] +
                         (c['flood']['n'] if c.get('flood') else 0)])
        play.append(['disconnect', c.get('reason',
                                         '{"text":"end of history"}')])
        if c.get('kick'):
            play.append(['close'])
        c['server']['conns'][-1]['play'] = play
        return c
    n = len(hist)
    if n > 1:
        for a, b in ((0, n // 2), (n // 2, n)):
            c = copy.deepcopy(sc)
            del c['history'][a:b]
            yield rebuilt(c)
    if n <= 12:
        for j in range(n):
            c = copy.deepcopy(sc)
            del c['history'][j]
            yield rebuilt(c)
    if sc['user_packets']:
        c = copy.deepcopy(sc)
        c['user_packets'] = 0
        yield rebuilt(c)
    if sc.get('flood') and sc['flood']['n'] > 60:
        c = copy.deepcopy(sc)
        c['flood']['n'] = max(sc['flood']['n'] // 2, 60)
        yield rebuilt(c)
    if sc['compress'] is not None:
        c = copy.deepcopy(sc)
        c['compress'] = None
        c['server']['conns'][-1]['login'] = [['success']]
        yield c
    for k in ('segment', 'short_read'):
        if sc['net'].get(k):
            c = copy.deepcopy(sc)
            c['net'].pop(k)
            yield c


def evidence(tier, seed, m, d):
    import sys
    return common.base_evidence(
        sys.modules[__name__], tier, seed, m, d,
        rule='seeded server histories of 1..400 play packets (keep-alives '
             'with ids at every VarInt/Long boundary incl. negatives, '
             'position-and-look, unknown-id frames, known-but-unhandled '
             'packets, pauses) ending in a play disconnect, optional 5/320/'
             '650 user-queued packets, compression on/off, optional random '
             'segmentation; in 25% of the cases (history <= 40) the server closes its socket right after the disconnect packet and later client sends may fail; protocol sampled with layout boundaries '
             'over-weighted (thorough: every supported version x4 first); '
             'evaluations = oracle obligations (one per expected delivery '
             'and answer); non-trivial = history of >= 3 packets; distinct = '
             'distinct run digests')

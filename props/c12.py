"""C12 - concurrent writers: every packet hits the wire once, whole, in order."""
import struct

from sim.world import World
from sim.tape import Tape, Policy, make_rng
from sim import wire
from sim.ids import ids_for
from sim.sched import DONE
from . import common

ID = 'C12'
LEVEL = 'exploration'
# scenario variants and fault kinds mixed into the seeded part (reported in
# the evidence; DESIGN 14.6 says where each came from)
VARIANTS = [
    "directed single-pre-emption sweep of small scenarios",
    "second Connection in the process",
    "bursts of 301..650 (and 4000..5000) queued packets",
    "reused object: disconnect, immediate reconnect, queued writes, disconnect in the hand-over window",
    "slow early outgoing listener (lock held up to 40 s)",
    "send() stalls",
    "protocol 47: keep-alive + Set Compression in one burst",
    "unexpected-frame oracle",
    "disconnect() called by an ordinary outgoing listener from inside the write pass",
    "forced writes that fail half-way through serialisation"
]
RUNS = {'quick': 7000, 'thorough': 400000}
WALL_CAP = {'quick': 150, 'thorough': 3000}

SIZES = [0, 1, 5, 15, 16, 17, 63, 64, 65, 255, 256, 257, 900, 3000]


def filler(tag, size):
    return bytes(((tag * 7 + i * 13) ^ (i >> 3)) & 0xFF for i in range(size))


DIRECTED = {'quick': 3, 'thorough': 12}      # small scenarios swept
_directed_cache = {}


def small_scenario(seed, k):
    """Two writers, one or two packets each, one disconnect."""
    rng = make_rng('directed', ID, seed, k)
    sc = scenario_for(seed, 10**9 + k, 'quick', _random_only=True)
    tag = [1]

    def ops(n):
        out = []
        for _ in range(n):
            out.append([rng.choice(['q', 'f']), tag[0],
                        rng.choice([0, 17, 300])])
            tag[0] += 1
        return out
    sc['threads'] = [ops(rng.choice([1, 2])), ops(rng.choice([1, 2]))]
    sc['disc'] = {'by': rng.choice(['coord', 0, 1]),
                  'immediate': rng.random() < 0.3}
    # exactly one disconnect, the one chosen here: the base scenario's
    # quitting listener (whose disconnect the oracle would not take as the
    # first one) belongs to its own threads and tags, not to these
    sc['quit_on'] = None
    sc['sched'] = {'granularity': 'line', 'max_steps': 400000}
    sc['server']['conns'][0]['play'] = [['ka', 5]] if k % 2 else []
    if sc['mode'] == 'play-switch':
        # the play script has just been replaced: no switch will come
        sc['mode'] = 'plain'
    sc['net'] = {'latency_us': 200}
    return sc


def directed_plan(seed, tier):
    """Every placement of ONE forced context switch (to every other
    runnable thread / the pending event) in each small scenario: exhaustive
    for pre-emption bound 1."""
    key = (seed, tier)
    if key in _directed_cache:
        return _directed_cache[key]
    cases = []
    for k in range(DIRECTED[tier]):
        sc = small_scenario(seed, k)
        tape = Tape(replay=[])
        execute(sc, tape)
        for pos in range(tape.pos):
            for v in (1, 2, 3):
                cases.append((k, pos, v))
    _directed_cache[key] = cases
    return cases


def total(tier, seed):
    return len(directed_plan(seed, tier)) + RUNS[tier]


def tape_for(scenario, seed, index):
    if 'directed' in scenario:
        return Tape(replay=scenario['directed'])
    return None


def scenario_for(seed, index, tier, _random_only=False):
    if not _random_only:
        plan = directed_plan(seed, tier)
        if index < len(plan):
            k, pos, v = plan[index]
            sc = small_scenario(seed, k)
            sc['directed'] = [[pos, v]]
            sc['directed_of'] = k
            return sc
    rng = make_rng('scenario', ID, seed, index)
    sup = common.supported()
    proto = common.pick_proto(rng, sup)
    if not _random_only and rng.random() < 0.06:
        return handover_scenario(rng, proto)
    mode = rng.choice(['plain', 'plain', 'compressed', 'encrypted', 'both'])
    threshold = rng.choice([0, 1, 16, 64, 256])
    nthreads = rng.choice([1, 2, 2, 3, 3, 4])
    tag = 1
    threads = []
    for t in range(nthreads):
        ops = []
        for _ in range(rng.randint(1, 6)):
            kind = rng.choice(['q', 'q', 'f'])
            ops.append([kind, tag, rng.choice(SIZES)])
            tag += 1
        threads.append(ops)
    disc = {'by': rng.choice(['coord', 'coord'] + list(range(nthreads))),
            'immediate': rng.random() < 0.3}
    big = False
    if rng.random() < 0.06:
        # a burst of queued packets that crosses the 300-packet write batch,
        # followed at once by the same thread's non-immediate disconnect
        n = rng.choice([301, 320, 650])
        burst = [['q', tag + i, rng.choice([0, 0, 3])] for i in range(n)]
        tag += n
        if make_rng('huge', ID, seed, index).random() < 0.3:
            # ... or a backlog of several thousand (more than any power of
            # two somebody might think generous for a queue)
            extra = make_rng('huge', ID, seed, index, 1).choice([3600, 4500])
            burst += [['q', tag + i, 0] for i in range(extra)]
            tag += extra
        threads[0] = threads[0][:1] + burst
        disc = {'by': 0, 'immediate': False}
        big = True
    ka = [rng.choice([0, 1, 127, 128, 2**31 - 1, rng.randrange(2**31)])
          for _ in range(rng.choice([0, 0, 1, 3]))]
    login = []
    if mode in ('compressed', 'both') and rng.random() < 0.5:
        login.append(['compress', threshold])
    early_writer = False
    if mode in ('encrypted', 'both'):
        if ids_for(proto)['cb.login.plugin_request'] is not None and \
                rng.random() < 0.15:
            # a writer that is active DURING the login: a plugin request
            # comes right before the encryption request, the application
            # takes it over and has another thread write the answer (forced)
            # the moment the encryption response is on its way out
            early_writer = True
            login.append(['plugin', 7, 'c12:early', '0a'])
        login.append(['encrypt', {'bits': 1024, 'token_hex': '0a0b0c0d',
                                  'server_id': '-'}])
    if mode in ('compressed', 'both') and not any(
            s[0] == 'compress' for s in login):
        login.append(['compress', threshold])
    login.append(['success'])
    play = []
    if 47 in sup and not big and rng.random() < 0.05:
        # protocol 47's play-state Set Compression, right behind a
        # keep-alive: the queued answer is written after the switch and has
        # to be in the new format (the writers start once the client has
        # seen the switch)
        proto, mode = 47, 'play-switch'
        login = [['success']]
        play = [['ka', rng.choice([1, 300, 2**31 - 1])],
                ['compress', threshold]]
        ka = [play[0][1]] + ka
        for v in ka[1:]:
            play.append(['ka', v])
    else:
        for v in ka:
            play.append(['ka', v])
            if rng.random() < 0.5:
                play.append(['pause', rng.choice([100, 1000, 50000])])
    second = None
    if not big and rng.random() < 0.08:
        # a second Connection object in the same process with its own
        # writers: the two must not influence each other
        thr2 = []
        for t in range(rng.choice([1, 2])):
            ops = []
            for _ in range(rng.randint(1, 5)):
                ops.append([rng.choice(['q', 'q', 'f']), tag,
                            rng.choice(SIZES)])
                tag += 1
            thr2.append(ops)
        second = {'threads': thr2,
                  'disc': {'by': rng.choice(['coord', 0]),
                           'immediate': rng.random() < 0.3}}
    gran = 'line' if rng.random() < 0.85 else 'instr'
    slow_out = None
    if not big and rng.random() < 0.1:
        # a slow early outgoing listener: whoever writes one of these
        # packets keeps the write lock for that long (virtual time)
        all_tags = [t for ops in threads for _k, t, _s in ops]
        slow_out = {'tags': sorted(rng.sample(all_tags, min(
            len(all_tags), rng.choice([1, 2])))),
            'us': rng.choice([1000, 200000, 8000000, 40000000])}
    rb = make_rng('bad-write', ID, seed, index)
    if not big and rb.random() < 0.15:
        # a forced write that fails half-way through its serialisation (a
        # field was never given a value): the caller gets the exception,
        # nothing of that packet reaches the wire, later packets are whole
        for _ in range(rb.choice([1, 2])):
            ops = threads[rb.randrange(len(threads))]
            ops.insert(rb.randrange(len(ops) + 1), ['b', tag, 0])
            tag += 1
    quit_on = None
    rq = make_rng('quit', ID, seed, index)
    if not big and second is None and slow_out is None and \
            mode != 'play-switch' and rq.random() < 0.08:
        # "disconnect once my quit packet has been sent": an ordinary
        # outgoing listener calls disconnect() when it sees one particular
        # packet - from inside the write pass (queued packet) or the forced
        # write that sent it, with the write lock held
        quit_on = rq.choice([t for ops in threads for k_, t, _s in ops
                             if k_ != 'b'] or [None])
        if quit_on is None:
            disc = {'by': 'coord', 'immediate': False}
        disc = {'by': 'listener', 'immediate': False}
    return {
        'quit_on': quit_on,
        'proto': proto, 'mode': mode, 'threshold': threshold,
        'threads': threads, 'disc': disc, 'slow_out': slow_out,
        'early_writer': early_writer,
        'second_party': second,
        'server': {'conns': [dict({'login': login, 'play': play},
                                  **({'pipeline_plugins': True}
                                     if early_writer else {}))] *
                   (2 if second else 1)},
        'net': {'latency_us': rng.choice([50, 200, 2000]),
                # now and then a send() blocks for a while (slow peer): the
                # writer stays inside its frame, holding the write lock
                'send_stalls': ({str(rng.randrange(6, 60)): rng.choice(
                    [2000, 80000, 400000, 6000000])
                    for _ in range(rng.choice([1, 2, 4]))}
                    if (not big and rng.random() < 0.1) else {})},
        'sched': {'granularity': 'line' if big else gran,
                  'max_steps': 3000000 if big else
                  (1500000 if gran == 'instr' else 400000)},
        'rand_seed': rng.randrange(2**32),
    }


def handover_scenario(rng, proto):
    """The object is reused: a first session is disconnected and connect()
    is called again at once, so the writes and the final disconnect may find
    the previous networking thread still winding down."""
    n = rng.choice([0, 1, 2, 5])
    return {
        'proto': proto, 'mode': 'plain', 'threshold': 0,
        'handover': {'first_immediate': rng.random() < 0.5,
                     'linger_us': rng.choice([0, 0, 2000, 400000]),
                     'first_write': rng.random() < 0.5,
                     'writes': [[1000 + i, rng.choice([0, 5, 300])]
                                for i in range(n)],
                     'immediate': rng.random() < 0.25},
        'threads': [], 'disc': {'by': 'coord', 'immediate': False},
        'second_party': None,
        'server': {'conns': [{'login': [['success']], 'play': []},
                             {'login': [['hold']], 'play': []}]},
        'net': {'latency_us': rng.choice([50, 200, 2000])},
        'sched': {'granularity': 'line', 'max_steps': 400000},
        'rand_seed': rng.randrange(2**32),
    }


def execute_handover(scenario, tape):
    w = World(scenario, tape)
    ho = scenario['handover']
    st = {'errors': [], 'calls': []}

    def build(w):
        from minecraft.networking.connection import (Connection,
                                                     PlayingReactor)
        from minecraft.networking.packets import serverbound

        def on_exit():
            if ho['linger_us'] and len(w.net.conns) < 2:
                w.sleep(ho['linger_us'])
        conn = Connection('sim.example', 25565, username='writer0',
                          allowed_versions=[scenario['proto']],
                          handle_exception=lambda e, i:
                          st['errors'].append(e),
                          handle_exit=on_exit)

        def plugin(tag, size):
            return serverbound.play.PluginMessagePacket(
                channel='dst', data=struct.pack('>I', tag) +
                filler(tag, size))

        def user():
            st['calls'].append(w.api('connect', conn.connect))
            w.wait_until(lambda: isinstance(conn.reactor, PlayingReactor)
                         or st['errors'], 20000000)
            if st['errors']:
                return
            if ho['first_write']:
                st['calls'].append(w.api('write-q-1', conn.write_packet,
                                         plugin(1, 3)))
            st['calls'].append(w.api(
                'disconnect', conn.disconnect,
                immediate=ho['first_immediate']))
            st['connect2'] = w.api('connect', conn.connect)
            for tag, size in ho['writes']:
                st['calls'].append(w.api('write-q-%d' % tag,
                                         conn.write_packet,
                                         plugin(tag, size)))
            st['pending'] = conn.new_networking_thread is not None
            st['disc'] = w.api('disconnect', conn.disconnect,
                               immediate=ho['immediate'])
            st['net_done'] = w.wait_until(
                lambda: common.all_net_done(w.sim), 5000000)
        w.sim.spawn(user, 'user0.0')

    w.run(build)
    res = common.result_from_world(w)
    check_handover(scenario, w, st, res)
    return res


def check_handover(scenario, w, st, res):
    sim = w.sim
    V = res.violations
    ho = scenario['handover']
    res.summary = {'proto': scenario['proto'], 'handover': ho,
                   'end': sim.end_state}
    res.state_sigs = [('handover', ho['immediate'], ho['first_immediate'],
                       bool(st.get('pending')), len(ho['writes']))]
    res.obligations += 1
    if sim.end_state == 'inconclusive':
        return
    if sim.end_state != 'done':
        if sim.end_state in ('deadlock', 'step-cap', 'vtime-cap'):
            V.append(('C12/%s:reused-object' % sim.end_state,
                      repr(sim.end_detail)))
        return
    for t in sim.threads:
        if t.kind == 'user' and t.exc is not None:
            raise common.HarnessError('user thread raised %r' % (t.exc,))
    c2 = st.get('connect2')
    if c2 is None or not c2.ok or st.get('disc') is None:
        # whether the second connect() is accepted is C16's business
        return
    res.nontrivial = True
    if st.get('pending'):
        res.probes['disconnect-while-hand-over-pending'] = 1
    res.obligations += 1
    for r in st['calls'] + [st['disc']]:
        if not r.ok:
            V.append(('C12/call-raised:reused-object',
                      {'call': r.name, 'exc': repr(r.exc)}))
            return
    apps = w.server.apps
    if len(apps) < 2:
        V.append(('C12/no-connection:reused-object', len(apps)))
        return
    app = apps[1]
    ids = ids_for(scenario['proto'])
    res.obligations += 1
    if app.errors:
        V.append(('C12/torn-stream:reused-object', app.errors[:3]))
        return
    want = ['handshake', 'login-start'] + [t for t, _s in ho['writes']]
    got = []
    for i, (seq, state, pid, body, meta) in enumerate(app.frames):
        if i == 0:
            got.append('handshake' if state == 'handshake' and pid == 0
                       else ('?', pid))
        elif i == 1:
            got.append('login-start' if pid == ids['sb.login.start']
                       else ('?', pid))
        else:
            tag = None
            if pid == ids['sb.play.plugin']:
                try:
                    ch, p = wire.read_string(body, 0)
                    data = body[p:]
                    tag = struct.unpack('>I', data[:4])[0]
                    size = dict(ho['writes']).get(tag)
                    if ch != 'dst' or size is None or \
                            data[4:] != filler(tag, size):
                        tag = None
                except Exception:
                    tag = None
            got.append(tag if tag is not None else ('?', pid))
    res.obligations += 2
    if ho['immediate']:
        if got != want[:len(got)]:
            V.append(('C12/queue-order:reused-object',
                      {'got': got, 'want': want}))
    elif got != want:
        if got == want[:len(got)]:
            V.append(('C12/lost-before-disconnect:reused-object',
                      {'got': got, 'want': want,
                       'hand_over_pending': st.get('pending')}))
        else:
            V.append(('C12/queue-order:reused-object',
                      {'got': got, 'want': want}))
    res.obligations += 2
    if not app.fin_seen:
        V.append(('C12/not-closed:reused-object', None))
    if not st.get('net_done'):
        V.append(('C12/networking-thread-alive:reused-object', None))


def policy(rng, scenario):
    p = rng.choice([0.0, 0.005, 0.02, 0.05, 0.2, 0.5])
    pe = rng.choice([0.0, 0.02, 0.1, 0.3])
    if scenario['sched']['granularity'] == 'instr':
        p = p / 4
    if rng.random() < 0.25:
        d = rng.choice([1, 2, 3, 4])
        return Policy(p_event=pe, pct_depth=d,
                      pct_len=rng.choice([300, 1500, 4000]),
                      name='pct(d=%d,pe=%s)' % (d, pe))
    return Policy(p_sched=p, p_event=pe, name='rw(p=%s,pe=%s)' % (p, pe))


def parties_of(scenario):
    """A scenario describes one Connection, or (dual) two Connections living
    in the same process, each with its own writers and disconnect."""
    out = [scenario]
    if scenario.get('second_party'):
        out.append(scenario['second_party'])
    return out


def execute(scenario, tape):
    if scenario.get('handover'):
        return execute_handover(scenario, tape)
    w = World(scenario, tape)
    parties = parties_of(scenario)
    sts = []

    def build(w):
        from minecraft.networking.connection import (Connection,
                                                     PlayingReactor)
        from minecraft.networking.packets import serverbound
        ready = {'n': 0}

        def party(pi, psc):
            st = {'started': False, 'issued': {}, 'writers_done': 0,
                  'disc': None, 'errors': [], 'name': 'writer%d' % pi}
            sts.append(st)
            errors = st['errors']
            conn = Connection('sim.example', 25565, username=st['name'],
                              allowed_versions=[scenario['proto']],
                              handle_exception=lambda e, i: errors.append(e))
            st['conn'] = conn
            nthreads = len(psc['threads'])
            if scenario.get('early_writer'):
                from minecraft.networking.packets import clientbound
                from minecraft.exceptions import IgnorePacket
                asked = []

                def on_request(p):
                    asked.append(p.message_id)
                    raise IgnorePacket

                def on_enc_response(p):
                    st['enc_response_on_its_way'] = True
                    w.sleep(300 + 4000 * (pi % 2))

                def answerer():
                    w.wait_until(lambda: st.get('enc_response_on_its_way')
                                 or errors, 30000000)
                    for mid in list(asked):
                        w.api('early-forced-answer', conn.write_packet,
                              serverbound.login.PluginResponsePacket(
                                  message_id=mid, successful=False),
                              force=True)
                conn.register_packet_listener(
                    on_request, clientbound.login.PluginRequestPacket,
                    early=True)
                conn.register_packet_listener(
                    on_enc_response,
                    serverbound.login.EncryptionResponsePacket, early=True,
                    outgoing=True)
                w.sim.spawn(answerer, 'early%d' % pi)
            so = scenario.get('slow_out') if pi == 0 else None
            if so:
                def slow(p):
                    d = bytes(getattr(p, 'data', b'') or b'')
                    if len(d) >= 4 and \
                            struct.unpack('>I', d[:4])[0] in so['tags']:
                        w.sleep(so['us'])
                conn.register_packet_listener(
                    slow, serverbound.play.PluginMessagePacket, early=True,
                    outgoing=True)

            def do_disconnect():
                imm = psc['disc']['immediate']
                r = w.api('disconnect-imm' if imm else 'disconnect',
                          conn.disconnect, immediate=imm)
                st['disc'] = r

            if pi == 0 and scenario.get('quit_on') is not None:
                def quit_listener(p):
                    d = bytes(getattr(p, 'data', b'') or b'')
                    if len(d) >= 4 and struct.unpack('>I', d[:4])[0] == \
                            scenario['quit_on'] and st['disc'] is None:
                        do_disconnect()
                conn.register_packet_listener(
                    quit_listener, serverbound.play.PluginMessagePacket,
                    outgoing=True)

            def writer(k):
                def run():
                    if k == 0:
                        st['connect'] = w.api('connect', conn.connect)
                        w.wait_until(lambda: (isinstance(
                            conn.reactor, PlayingReactor) and (
                                scenario['mode'] != 'play-switch' or
                                conn.options.compression_enabled))
                            or errors, 20000000)
                        st['started'] = True
                        ready['n'] += 1
                    # all parties start writing together
                    w.wait_until(lambda: ready['n'] == len(parties) or
                                 any(s_['errors'] for s_ in sts), 30000000)
                    if errors or not isinstance(conn.reactor,
                                                PlayingReactor):
                        st['writers_done'] += 1
                        return
                    for kind, tag, size in psc['threads'][k]:
                        if kind == 'b':
                            r = w.api('write-bad-%d' % tag, conn.write_packet,
                                      serverbound.play.PluginMessagePacket(
                                          channel='dst', data=None),
                                      force=True)
                            st.setdefault('bad', []).append(r.ok)
                            continue
                        pkt = serverbound.play.PluginMessagePacket(
                            channel='dst', data=struct.pack('>I', tag) +
                            filler(tag, size))
                        r = w.api('write-%s-%d' % (kind, tag),
                                  conn.write_packet, pkt,
                                  force=(kind == 'f'))
                        st['issued'][tag] = (k, kind, size, r)
                    st['writers_done'] += 1
                    if psc['disc']['by'] == k:
                        do_disconnect()
                return run

            for k in range(nthreads):
                w.sim.spawn(writer(k), 'user%d.%d' % (pi, k))

            def coord():
                w.wait_until(lambda: st['writers_done'] == nthreads,
                             60000000)
                if psc['disc']['by'] == 'coord':
                    do_disconnect()
                w.wait_until(lambda: st['disc'] is not None, 60000000)
                st['coord_done'] = True
                w.wait_until(lambda: all(s_.get('coord_done')
                                         for s_ in sts), 60000000)
                ok = w.wait_until(lambda: common.all_net_done(w.sim),
                                  5000000)
                st['net_done'] = ok
            w.sim.spawn(coord, 'coord%d' % pi)

        for pi, psc in enumerate(parties):
            party(pi, psc)

    w.run(build)
    res = common.result_from_world(w)
    for pi, psc in enumerate(parties):
        st = sts[pi] if pi < len(sts) else {}
        app = next((a_ for a_ in w.server.apps
                    if a_.login_name == 'writer%d' % pi), None)
        psc2 = dict(psc, proto=scenario['proto'], mode=scenario['mode'],
                    server=scenario['server'])
        check(psc2, w, st, res, app)
        if res.violations:
            if len(parties) > 1:
                res.violations[:] = [(sg + ':two-connections', d)
                                     for sg, d in res.violations]
            break
    if len(parties) > 1 and not res.violations:
        res.probes['two-connections-in-one-process'] = 1
    return res


def check(scenario, w, st, res, app=None):
    sim = w.sim
    V = res.violations
    w_errors = st.get('errors', [])

    def ob():
        res.obligations += 1
    res.summary = {'proto': scenario['proto'], 'mode': scenario['mode'],
                   'threads': scenario['threads'], 'disc': scenario['disc'],
                   'policy_choices_taken': len(w.tape.used),
                   'end': sim.end_state}
    res.nontrivial = bool(sim.stats.get('preempt')) and \
        len(scenario['threads']) >= 1
    ob()
    if sim.end_state == 'inconclusive':
        return
    if sim.end_state != 'done':
        if sim.end_state in ('deadlock', 'step-cap', 'vtime-cap'):
            V.append(('C12/%s' % sim.end_state, repr(sim.end_detail)))
        return
    for t in sim.threads:
        if t.kind == 'user' and t.exc is not None:
            raise common.HarnessError('user thread raised %r' % (t.exc,))
    if app is None:
        V.append(('C12/no-connection', None))
        return
    if not st.get('started') or not app.reached_play or w_errors \
            and not st['issued']:
        V.append(('C12/login-failed', repr(w_errors[:1]) + repr(app.errors)))
        return
    ids = ids_for(scenario['proto'])
    disc = st['disc']
    imm = scenario['disc']['immediate']
    # 1. the byte stream parses into well-formed frames, ends on a boundary
    ob()
    if app.errors:
        V.append(('C12/torn-stream', app.errors[:3]))
        return
    ob()
    if disc is None or not disc.ok:
        V.append(('C12/disconnect-raised', repr(disc and disc.exc)))
        return
    # 2. tags
    seen = []
    ka_seen = []
    for seq, state, pid, body, meta in app.frames:
        if state != 'play' and state != 'paused':
            continue
        if pid == ids['sb.play.plugin']:
            try:
                ch, p = wire.read_string(body, 0)
            except Exception:
                V.append(('C12/torn-stream', 'undecodable plugin frame'))
                return
            data = body[p:]
            tag = struct.unpack('>I', data[:4])[0] if len(data) >= 4 else -1
            info = st['issued'].get(tag)
            ob()
            if ch != 'dst' or info is None:
                # a tag may be in flight (issued record not stored yet) only
                # if its write never returned; look it up in the plan
                planned = {t: (k, kind, size)
                           for k, ops in enumerate(scenario['threads'])
                           for kind, t, size in ops}
                if ch != 'dst' or tag not in planned:
                    V.append(('C12/unknown-tag', tag))
                    return
                info = planned[tag] + (None,)
            if data[4:] != filler(tag, info[2]):
                V.append(('C12/corrupt-payload', tag))
                return
            seen.append((seq, tag))
            # vanilla-acceptable compression
            if meta.get('threshold') is not None and meta['threshold'] >= 0:
                T = meta['threshold']
                ob()
                if meta['data_len'] and meta['payload_len'] < T:
                    V.append(('C12/compressed-below-threshold', tag))
                if not meta['data_len'] and meta['payload_len'] > T:
                    V.append(('C12/uncompressed-above-threshold', tag))
        elif pid == ids['sb.play.keep_alive']:
            ka_seen.append(body)
        else:
            # nobody wrote such a packet: bytes of some frame were taken
            # for something else
            ob()
            V.append(('C12/unexpected-frame', {'id': pid,
                                               'len': len(body)}))
            return
    tags = [t for _s, t in seen]
    ob()
    if len(set(tags)) != len(tags):
        dup = sorted(t for t in set(tags) if tags.count(t) > 1)
        V.append(('C12/duplicate-tag', dup))
    # keep-alive answers: at most once each, in order (subsequence)
    sent_ka = [it[1] for it in scenario['server']['conns'][0]['play']
               if it[0] == 'ka']
    later339 = ids['later'][339]
    exp = [wire.i64(v) if later339 else wire.varint(v) for v in sent_ka]
    ob()
    j = 0
    for b in ka_seen:
        while j < len(exp) and exp[j] != bytes(b):
            j += 1
        if j >= len(exp):
            V.append(('C12/keepalive-answer-wrong', bytes(b).hex()))
            break
        j += 1
    # 3. queued tags of one thread in issue order
    pos = {t: i for i, t in enumerate(tags)}
    for k, ops in enumerate(scenario['threads']):
        q = [t for kind, t, _s in ops if kind == 'q' and t in pos]
        ob()
        if [pos[t] for t in q] != sorted(pos[t] for t in q):
            V.append(('C12/queue-order', {'thread': k, 'wire': tags}))
            break
    # 4. everything handed over before a non-immediate disconnect is sent;
    #    forced writes that returned before any disconnect are always sent
    for tag, (k, kind, size, r) in sorted(st['issued'].items()):
        before = r.ret is not None and r.ret < disc.inv
        if before:
            ob()
            if not r.ok:
                V.append(('C12/write-raised', {'tag': tag,
                                               'exc': repr(r.exc)}))
            elif tag not in pos and (not imm or kind == 'f'):
                V.append(('C12/lost-before-disconnect',
                          {'tag': tag, 'kind': kind}))
    # 5. an immediate disconnect sends nothing further: the calling thread
    #    performs no send between invocation and return
    if imm:
        ob()
        caller = None
        for seq, tid, kind, detail, _vt in sim.history:
            if seq == disc.inv:
                caller = tid
        for seq, tid, kind, detail, _vt in sim.history:
            if disc.inv < seq < disc.ret and tid == caller and kind == 'send':
                V.append(('C12/send-during-immediate-disconnect', seq))
                break
    # 6. after the socket was shut down no byte reaches the server
    ci = app.conn.index
    shut = [seq for seq, tid, kind, d, _vt in sim.history
            if kind == 'shutdown' and d == ci]
    if shut:
        ob()
        late = [seq for seq, tid, kind, d, _vt in sim.history
                if kind == 'send' and seq > shut[0] and d[0] == ci]
        if late:
            V.append(('C12/send-after-shutdown', late[:3]))
    # 7. the socket is closed: the server saw the client's FIN
    ob()
    if not app.fin_seen:
        V.append(('C12/not-closed', None))
    ob()
    if not st.get('net_done'):
        V.append(('C12/networking-thread-alive', None))
    res.state_sigs = [(scenario['mode'], len(scenario['threads']),
                       min(sim.switches, 40), imm)]
    if sim.stats.get('lock-contended'):
        res.probes['lock-contended-runs'] = 1


def shrink_scenario(sc):
    import copy
    if sc.get('handover'):
        ho = sc['handover']
        for j in range(len(ho['writes'])):
            c = copy.deepcopy(sc)
            del c['handover']['writes'][j]
            yield c
        for k in ('first_write', 'linger_us'):
            if ho[k]:
                c = copy.deepcopy(sc)
                c['handover'][k] = 0 if k == 'linger_us' else False
                yield c
        return
    if sc.get('second_party'):
        c = copy.deepcopy(sc)
        c['second_party'] = None
        c['server']['conns'] = c['server']['conns'][:1]
        yield c
    # fewer threads
    if len(sc['threads']) > 1:
        for k in range(len(sc['threads']) - 1, -1, -1):
            c = copy.deepcopy(sc)
            del c['threads'][k]
            by = c['disc']['by']
            if by == k:
                c['disc']['by'] = 'coord'
            elif isinstance(by, int) and by > k:
                c['disc']['by'] = by - 1
            yield c
    # fewer ops
    for k, ops in enumerate(sc['threads']):
        if len(ops) > 1:
            for j in range(len(ops)):
                c = copy.deepcopy(sc)
                del c['threads'][k][j]
                yield c
    # smaller payloads
    for k, ops in enumerate(sc['threads']):
        for j, (kind, tag, size) in enumerate(ops):
            if size > 0:
                c = copy.deepcopy(sc)
                c['threads'][k][j][2] = 0
                yield c
    # no keep-alives
    play = sc['server']['conns'][0]['play']
    if play:
        c = copy.deepcopy(sc)
        c['server']['conns'][0]['play'] = []
        yield c
    # simpler framing
    login = sc['server']['conns'][0]['login']
    if len(login) > 1:
        for j in range(len(login) - 1):
            c = copy.deepcopy(sc)
            del c['server']['conns'][0]['login'][j]
            yield c
    if sc['sched']['granularity'] != 'line':
        c = copy.deepcopy(sc)
        c['sched']['granularity'] = 'line'
        yield c


def evidence(tier, seed, m, d):
    import sys
    return common.base_evidence(
        sys.modules[__name__], tier, seed, m, d,
        rule='first part: every placement of one forced context switch '
             '(pre-emption bound 1, to each other runnable thread) at every '
             'choice point of %d small two-writer scenarios at line '
             'granularity (exhaustive for that bound); then: '
             'each run = seeded scenario (1-4 writer threads x queued/forced '
             'writes x final disconnect, framing mode, protocol) + seeded '
             'schedule tape; evaluations = oracle obligations checked; a run '
             'is non-trivial when at least one pre-emption fired; distinct = '
             '6%% reuse one object (session, disconnect, connect again at once, queued writes, disconnect while the previous networking thread may still be winding down); 8%% of the seeded scenarios run a second Connection object with its own writers in the same process; 6%% contain a burst of 301..650 queued packets followed by the disconnect; distinct run digests (hash of every scheduler step and I/O '
             'event)' % DIRECTED[tier])

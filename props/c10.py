"""C10 - login completes correctly for every order of optional server steps."""
import copy
import json
import sys

from sim.world import World
from sim.tape import Tape, Policy, make_rng
from sim.ids import ids_for
from sim import wire, authsvc
from sim.server import load_keys
from . import common

ID = 'C10'
LEVEL = 'exploration'
# scenario variants and fault kinds mixed into the seeded part (reported in
# the evidence; DESIGN 14.6 says where each came from)
VARIANTS = [
    "second login on the same object (user / handler)",
    "pipelined plugin requests before the encryption request and (same burst, unsegmented) before set-compression",
    "late abortive kick (pause, RST) with slow outgoing listener",
    "reused plugin message ids, ids with bit 31 set",
    "request sizes T-1/T/T+1",
    "session-service reply faults",
    "application thread answering taken-over plugin requests (forced) while the encryption response goes out"
]
RUNS = {'quick': 5000, 'thorough': 200000}
WALL_CAP = {'quick': 200, 'thorough': 3300}

THRESHOLDS = [0, 1, 64, 256, 2**31 - 1]
LOGIN_BOUNDARY = [384, 385, 388, 393, 404, 706, 707, 735, 47, 340, 757]
DISCONNECTS = [
    ('{"text":"You are banned"}', 'text', 'You are banned'),
    ('{"text":"a","extra":[{"text":"b"}]}', 'text', 'a'),
    ('{"translate":"multiplayer.disconnect.banned"}', 'raw', None),
    ('"bare string"', 'raw', None),
    ('{"text":"","color":"red"}', 'text', ''),
    ('{"text":"Outdated client! Please use 1.16.5"}', 'outdated', '1.16.5'),
    ('{"text":"Outdated server! I\'m still on 1.8.9"}', 'outdated', '1.8.9'),
    ('{"text":"Outdated client! Please use 1.12.2 now"}', 'text',
     'Outdated client! Please use 1.12.2 now'),
    ('{"text":"caf\\u00e9 \\u2603"}', 'text', u'café ☃'),
    # valid JSON that is neither an object nor a string (the array form of a
    # chat component, a number, null, a flag): reported with the raw text
    ('["", {"text": "You are banned"}]', 'raw', None),
    ('42', 'raw', None),
    ('null', 'raw', None),
    ('true', 'raw', None),
]
JOIN_REPLIES = [
    (204, ''),
    (403, '{"error":"ForbiddenOperationException","errorMessage":"Invalid '
          'token."}'),
    (500, 'Internal Server Error'),
    (429, '{"error":"TooManyRequestsException","errorMessage":"slow down",'
          '"cause":"rate"}'),
    (503, ''),
]


def scenario_for(seed, index, tier, _depth=0, _proto=None):
    sc = _scenario_for(seed, index, tier, _depth, _proto)
    if _depth:
        return sc
    if sc['user_plugin_listener']:
        # how the application words its answer: success stated, or implied
        # by the presence of data (also empty data), or by its absence
        sc['user_answer'] = make_rng('answer-form', ID, seed, index).choice(
            ['explicit', 'explicit', 'implied', 'implied-empty',
             'implied-declined'])
    lg = sc['logins'][0]
    kinds = [s_[0] for s_ in lg['steps']]
    if len(sc['logins']) == 1 and \
            lg['disc'] is None and 'encrypt' in kinds and \
            not any(k.startswith('compress') for k in kinds) and \
            'plugin' in kinds[:kinds.index('encrypt')] and \
            not lg.get('success_at_once') and \
            make_rng('answer-thread', ID, seed, index).random() < 0.6:
        # the application takes over the plugin requests that come before
        # the encryption request and has ANOTHER thread answer them (forced
        # writes) the moment the encryption response is on its way out; the
        # server does not wait for those answers before it asks for
        # encryption.  Whoever gets to write first, everything after the
        # encryption response is encrypted.
        sc['answer_thread'] = True
        sc['user_plugin_listener'] = True
        lg['pipeline'] = True
        conn = sc['server']['conns'][-1]
        if not conn.get('pipeline_plugins'):
            conn['pipeline_plugins'] = 'encrypt'
        sc['sched']['granularity'] = 'line'
    return sc


def _scenario_for(seed, index, tier, _depth=0, _proto=None):
    rng = make_rng('scenario', ID, seed, index, _depth)
    sup = common.supported()
    if rng.random() < 0.6:
        proto = rng.choice([p for p in LOGIN_BOUNDARY if p in sup])
    else:
        proto = rng.choice(sup)
    if _depth:
        proto = _proto
    ids = ids_for(proto)
    has_plugin = ids['cb.login.plugin_request'] is not None
    steps = []
    T1 = rng.choice(THRESHOLDS)
    pre_c = rng.random() < 0.3
    enc = rng.random() < 0.55
    post_c = (not pre_c) and rng.random() < 0.5
    if pre_c:
        steps.append(['compress', T1])
    enc_opts = None
    if enc:
        sid = rng.choice(['', '-', '-', 'srv%04x' % rng.randrange(65536),
                          'a' * 20])
        enc_opts = {'bits': rng.choice([1024, 1024, 2048]),
                    'token_hex': bytes(rng.randrange(256) for _ in range(
                        rng.choice([1, 4, 4, 16, 64]))).hex(),
                    'server_id': sid}
        steps.append(['encrypt', enc_opts])
    if post_c:
        steps.append(['compress', T1])
    # plugin requests at any admissible position (singly or pipelined)
    plugins = []
    if has_plugin:
        n = rng.choice([0, 0, 1, 2, 5])
        # message ids are 32-bit: those with the top bit set travel as
        # 5-byte VarInts (negative Java ints)
        mid = rng.choice([0, 1, 100, 100, 2**31 - 1, 2**31, 2**32 - 1001,
                          2**32 - 1])
        for _ in range(n):
            pos = rng.randint(0, len(steps))
            n_data = rng.choice([0, 3, 300])
            if T1 in (1, 64, 256) and rng.random() < 0.5:
                # uncompressed size of the request = T-1, T or T+1 (a
                # vanilla server compresses from size >= T on)
                head = len(wire.varint(ids['cb.login.plugin_request'])) + \
                    len(wire.varint(mid)) + len(wire.string('ch:%d' % mid))
                n_data = max(T1 + rng.choice([-1, 0, 0, 1]) - head, 0)
            data = bytes(rng.randrange(256) for _ in range(n_data)).hex()
            steps.insert(pos, ['plugin', mid, 'ch:%d' % mid, data])
            plugins.append(mid)
            # message ids are the server's business: it may reuse one
            mid = (mid + rng.choice([0, 1, 1, 127, 1000])) % 2**32
    ending = rng.random()
    disc = None
    late = None
    if ending < 0.7:
        steps.append(['success'])
    else:
        disc = rng.choice(DISCONNECTS)
        # a disconnect may come at any point of the script
        cut = rng.randint(0, len(steps))
        steps = steps[:cut] + [['disconnect', disc[0]]]
        plugins = [s[1] for s in steps if s[0] == 'plugin']
        enc = any(s[0] == 'encrypt' for s in steps)
        if not enc:
            enc_opts = None
        if len(steps) > 1 and steps[-2][0] == 'plugin' and \
                rng.random() < 0.5:
            # the rejection comes a little after the last request, and the
            # server may close abortively: the client's queued answer can
            # then fail (ECONNRESET) with the disconnect packet still unread
            late = {'pause_us': rng.choice([1000, 30000, 80000]),
                    'rst': rng.random() < 0.7,
                    'slow_out_us': rng.choice([0, 50000, 200000])}
            steps.insert(len(steps) - 1, ['pause', late['pause_us']])
    auth = rng.random() < 0.5
    join = rng.choice(JOIN_REPLIES) if rng.random() < 0.35 else \
        JOIN_REPLIES[0]
    user_plugin = has_plugin and plugins and rng.random() < 0.35
    seg = rng.random() < 0.5
    play = [['ka', 77], ['expect', 1], ['disconnect', '{"text":"fin"}']]
    # a server may send its encryption request without waiting for the
    # answers to earlier plugin requests; before a set-compression it may do
    # so only when both reach the client in one piece (otherwise an answer
    # written before the client has seen that packet would be in the old
    # framing - a race inherent in the protocol)
    pipeline = bool(plugins) and rng.random() < 0.3
    # ... or even its login success (not what a vanilla server does; the
    # answers then arrive when the server is already in the play state -
    # still once each)
    success_at_once = bool(plugins) and disc is None and not pipeline and \
        rng.random() < 0.12
    logins = [{'steps': steps, 'disc': disc, 'late': late,
               'pipeline': pipeline, 'success_at_once': success_at_once}]
    if _depth == 0 and rng.random() < 0.3:
        # the same Connection object logs in a second time: nothing of the
        # first attempt (however it ended) may leak into the second
        again = _scenario_for(seed, index, tier, _depth=1, _proto=proto)
        second = again['logins'][0]
        if rng.random() < 0.6:
            # reuse the first script's plugin message ids
            ids1 = [s_[1] for s_ in steps if s_[0] == 'plugin']
            own = [s_ for s_ in second['steps'] if s_[0] == 'plugin']
            new_ids = ids1[:len(own)] + [s_[1] for s_ in own[len(ids1):]]
            if len(set(new_ids)) == len(new_ids):
                for s_, m_ in zip(own, new_ids):
                    s_[1] = m_
                    s_[2] = 'ch:%d' % m_
        logins.append(second)
    via = 'user'
    if len(logins) == 2 and logins[0]['disc'] is not None and \
            rng.random() < 0.5:
        # the first attempt is rejected; the exception handler itself calls
        # connect() again (no user-level disconnect() in between)
        via = 'handler'
    # the version may be negotiated first (status query on a connection of
    # its own, then the login at the version the server reported) instead
    # of being pinned: everything after that must be just the same
    negotiate = _depth == 0 and rng.random() < 0.25
    if negotiate:
        import json as _json
        _status = {'status': {'mode': 'reply', 'json': _json.dumps({
            'version': {'name': 'sim', 'protocol': proto},
            'description': {'text': 'c10'}})}}
    return {
        'negotiate': negotiate,
        'proto': proto, 'logins': logins, 'auth': auth, 'join_reply': join,
        'second_via': via,
        'user_plugin_listener': bool(user_plugin),
        'server': {'conns': ([_status] if negotiate else []) + [
            dict({'login': lg['steps'], 'play': play},
                                  **dict(
                                      ({'close_mode': 'rst'}
                                       if (lg.get('late') or {}).get('rst')
                                       else {}),
                                      # unsegmented streams deliver a
                                      # request and the set-compression that
                                      # follows it in one piece, so the
                                      # client handles both in one pass and
                                      # nothing races
                                      **({'success_no_wait': True}
                                         if lg.get('success_at_once')
                                         else {}),
                                      pipeline_plugins=(
                                          ('encrypt' if seg else 'all')
                                          if lg.get('pipeline') else False)))
                             for lg in logins]},
        'net': {'latency_us': rng.choice([50, 500]), 'segment': seg,
                'short_read': seg, 'max_seg': rng.choice([1, 16, 300])},
        'sched': {'granularity': rng.choice(['io', 'io', 'line']),
                  'max_steps': 400000},
        'rand_seed': rng.randrange(2**32),
    }


def policy(rng, scenario):
    if scenario.get('answer_thread'):
        return Policy(p_sched=rng.choice([0.02, 0.1, 0.3]),
                      p_event=rng.choice([0, 0.1, 0.3]),
                      p_short=0.3, p_seg=0.3, name='c10-answer-thread')
    return Policy(p_sched=rng.choice([0, 0.01, 0.05]),
                  p_event=rng.choice([0, 0.1, 0.3]),
                  p_short=rng.choice([0.1, 0.6]),
                  p_seg=rng.choice([0.1, 0.6]), name='c10')


def execute(scenario, tape):
    w = World(scenario, tape)
    n = len(scenario['logins'])
    st = {'L': [{'errs': [], 'exits': [], 'log': [], 'reactor_at_ka': None,
                 'req_from': 0} for _ in range(n)], 'cur': 0}
    svc = authsvc.Service(default=authsvc.Reply(
        scenario['join_reply'][0], scenario['join_reply'][1]))
    st['svc'] = svc

    def build(w):
        from minecraft.networking.connection import Connection
        from minecraft.networking.packets import (Packet, clientbound,
                                                   serverbound)
        from minecraft import authentication
        from minecraft.exceptions import IgnorePacket
        kw = {}
        if scenario['auth']:
            tok = authentication.AuthenticationToken('user@example.org',
                                                     'ACCESS-TOKEN',
                                                     'client-token')
            tok.profile.id_ = 'b' * 32
            tok.profile.name = 'Authed'
            kw['auth_token'] = tok
        else:
            kw['username'] = 'Offline'

        def cur():
            return st['L'][st['cur']]
        def on_exc(e, i):
            cur()['errs'].append(e)
            if scenario.get('second_via') == 'handler' and st['cur'] == 0:
                st['L'][0]['req_to'] = len(svc.requests)
                st['cur'] = 1
                st['L'][1]['req_from'] = len(svc.requests)
                st['handler_reconnect'] = True
                conn.connect()
        conn = Connection('sim.example', 25565,
                          allowed_versions=(
                              [scenario['proto'],
                               max(p_ for p_ in common.supported()
                                   if p_ != scenario['proto'])]
                              if scenario.get('negotiate')
                              else [scenario['proto']]),
                          handle_exception=on_exc,
                          handle_exit=lambda: cur()['exits'].append(1), **kw)
        w.conn = conn

        def on_packet(p):
            cur()['log'].append(p.packet_name)
            if p.packet_name == 'keep alive':
                cur()['reactor_at_ka'] = type(conn.reactor).__name__
        conn.register_packet_listener(on_packet, Packet, early=True)
        if scenario.get('answer_thread'):
            asked = []

            def on_enc_response(p):
                st['enc_response_on_its_way'] = True
                w.sleep(300)

            def answerer():
                w.wait_until(lambda: st.get('enc_response_on_its_way') or
                             cur()['errs'] or cur()['exits'], 30000000)
                st['answerer_took_over'] = True
                for p in list(asked):
                    w.api('forced-answer', conn.write_packet,
                          serverbound.login.PluginResponsePacket(
                              message_id=p.message_id, successful=True,
                              data=b'user:' + bytes(p.data)[:8]),
                          force=True)
            conn.register_packet_listener(
                on_enc_response, serverbound.login.EncryptionResponsePacket,
                early=True, outgoing=True)
            w.sim.spawn(answerer, 'answerer')
        if scenario['user_plugin_listener']:
            def on_plugin(p):
                if scenario.get('answer_thread') and \
                        not st.get('enc_response_on_its_way'):
                    asked.append(p)
                    raise IgnorePacket
                form = scenario.get('user_answer', 'explicit')
                if form == 'explicit':
                    ans = serverbound.login.PluginResponsePacket(
                        message_id=p.message_id, successful=True,
                        data=b'user:' + bytes(p.data)[:8])
                elif form == 'implied':
                    ans = serverbound.login.PluginResponsePacket(
                        message_id=p.message_id,
                        data=b'user:' + bytes(p.data)[:8])
                elif form == 'implied-empty':
                    ans = serverbound.login.PluginResponsePacket(
                        message_id=p.message_id, data=b'')
                else:
                    ans = serverbound.login.PluginResponsePacket(
                        message_id=p.message_id)
                conn.write_packet(ans)
                raise IgnorePacket
            conn.register_packet_listener(
                on_plugin, clientbound.login.PluginRequestPacket, early=True)

        def slow(p):
            late_ = scenario['logins'][st['cur']].get('late')
            if late_ and late_['slow_out_us'] and p.packet_name not in (
                    'handshake', 'login start'):
                w.sleep(late_['slow_out_us'])
        if any((lg.get('late') or {}).get('slow_out_us')
               for lg in scenario['logins']):
            conn.register_packet_listener(slow, Packet, early=True,
                                          outgoing=True)

        def user():
            handler = scenario.get('second_via') == 'handler'
            for k in range(n):
                if k == 0 or not handler:
                    st['cur'] = k
                    st['L'][k]['req_from'] = len(svc.requests)
                    st['L'][k]['connect'] = w.api('connect', conn.connect)
                st['L'][k]['quiet'] = w.wait_until(
                    lambda: common.all_net_done(w.sim) and
                    (st['L'][k]['exits'] or st['L'][k]['errs']) and
                    (not handler or st['cur'] == n - 1 or k == n - 1),
                    60000000)
                if 'req_to' not in st['L'][k]:
                    st['L'][k]['req_to'] = len(svc.requests)
        w.sim.spawn(user, 'user0')

    import minecraft.authentication as A
    w.extra = [(A, 'requests', authsvc.SimRequests(svc, w.sim))]
    w.run(build)
    res = common.result_from_world(w)
    check(scenario, w, st, res)
    return res


def check(scenario, w, st, res):
    sim = w.sim
    V = res.violations
    ids = ids_for(scenario['proto'])

    def ob(n=1):
        res.obligations += n
    res.summary = {'proto': scenario['proto'],
                   'scripts': [[s[0] if s[0] not in ('compress',)
                                else 'compress(%d)' % s[1]
                                for s in lg['steps']]
                               for lg in scenario['logins']],
                   'auth': scenario['auth'],
                   'join_reply': scenario['join_reply'][0],
                   'user_plugin_listener': scenario['user_plugin_listener'],
                   'end': sim.end_state}
    res.nontrivial = len(scenario['logins'][0]['steps']) > 1
    res.state_sigs = [tuple(tuple(s[0] for s in lg['steps'])
                            for lg in scenario['logins']) +
                      (scenario['auth'],)]
    ob()
    if sim.end_state == 'inconclusive':
        return
    if sim.end_state != 'done':
        waits = [a.waiting for a in w.server.apps]
        if 'plugins' in waits:
            V.append(('C10/plugin-request-unanswered',
                      {'end': sim.end_state, 'login': waits.index('plugins'),
                       'outstanding': [a.plugin_outstanding
                                       for a in w.server.apps]}))
            return
        if 'enc' in waits and any(a.errors for a in w.server.apps):
            V.append(('C10/encryption-response-unreadable',
                      {'end': sim.end_state,
                       'server_errors': [a.errors[:2]
                                         for a in w.server.apps]}))
            return
        V.append(('C10/%s' % sim.end_state,
                  {'detail': repr(sim.end_detail),
                   'server_errors': [a.errors[:2] for a in w.server.apps],
                   'waiting': [a.waiting for a in w.server.apps]}))
        return
    off = 1 if scenario.get('negotiate') else 0
    if len(w.server.apps) != len(scenario['logins']) + off:
        V.append(('C10/tcp-connection-count', len(w.server.apps)))
        return
    if off:
        res.probes['login-after-version-negotiation'] = 1
    for k, lg in enumerate(scenario['logins']):
        check_login(scenario, w, st, res, ids, k, lg, ob)
        if V:
            if k:
                V[:] = [(sig + ':second-login', d) for sig, d in V]
            return
    if len(scenario['logins']) > 1:
        res.probes['second-login-on-same-connection'] = 1
        if st.get('handler_reconnect'):
            res.probes['second-login-from-exception-handler'] = 1


def check_login(scenario, w, st, res, ids, k, lg, ob):
    sim = w.sim
    V = res.violations
    steps = lg['steps']
    app = w.server.apps[k + (1 if scenario.get('negotiate') else 0)]
    L = st['L'][k]
    errs = L['errs']

    class _Svc(object):
        requests = st['svc'].requests[L['req_from']:L.get(
            'req_to', len(st['svc'].requests))]
    svc = _Svc
    st = dict(st, errs=errs, exits=L['exits'], log=L['log'],
              reactor_at_ka=L['reactor_at_ka'], quiet=L.get('quiet'))
    scenario = dict(scenario, disc=lg['disc'])
    enc_step = next((s for s in steps if s[0] == 'encrypt'), None)
    ends_ok = steps[-1][0] == 'success'
    # --- join request
    join_expected = enc_step is not None and scenario['auth'] and \
        enc_step[1]['server_id'] != '-'
    join_fails = join_expected and scenario['join_reply'][0] != 204
    ob()
    if join_expected:
        if len(svc.requests) != 1:
            V.append(('C10/join-request-count', len(svc.requests)))
            return
        rq = svc.requests[0]
        key = load_keys()[enc_step[1]['bits']]
        ob(4)
        if rq['url'] != 'https://sessionserver.mojang.com/session/' \
                        'minecraft/join':
            V.append(('C10/join-url', rq['url']))
        body = rq['json'] or {}
        if body.get('accessToken') != 'ACCESS-TOKEN' or \
                body.get('selectedProfile') != {'id': 'b' * 32,
                                                'name': 'Authed'}:
            V.append(('C10/join-payload', body))
        secret = app.enc.get('secret') if app.enc else None
        if not join_fails:
            if secret is None:
                V.append(('C10/no-encryption-response', None))
                return
            want = wire.java_hex_digest(enc_step[1]['server_id'], secret,
                                        key['der'])
            if body.get('serverId') != want:
                V.append(('C10/join-server-hash',
                          {'got': body.get('serverId'), 'want': want}))
    elif svc.requests:
        V.append(('C10/unexpected-join-request',
                  [r['url'] for r in svc.requests]))
    if V:
        return
    if join_fails:
        ob(2)
        if not errs:
            V.append(('C10/failed-join-silent', None))
        elif type(errs[0]).__name__ != 'YggdrasilError' or \
                getattr(errs[0], 'status_code', None) != \
                scenario['join_reply'][0]:
            V.append(('C10/failed-join-wrong-error', repr(errs[0])[:160]))
        return
    # --- server-side protocol observations
    ob()
    errors = list(app.errors)
    if (lg.get('late') or {}).get('rst'):
        # a frame whose second send() failed on the reset connection is cut
        # short by the fault itself, not by the client
        errors = [e for e in errors if not e.startswith(
            'client stream ended inside a frame')]
        if sim.stats.get('fault.rst'):
            res.probes['abortive-close-after-login-disconnect'] = 1
        if any(k_ == 'send-rst' for _s, _t, k_, _d, _v in sim.history):
            res.probes['answer-failed-with-disconnect-unread'] = 1
    if errors:
        V.append(('C10/server-saw-protocol-error', errors[:3]))
        return
    if enc_step is not None and app.enc is not None and \
            'secret' in app.enc:
        ob(3)
        if app.enc['token_back'] != app.enc['token']:
            V.append(('C10/verify-token-wrong', None))
        if len(app.enc['secret']) != 16:
            V.append(('C10/secret-length', len(app.enc['secret'])))
        klen = enc_step[1]['bits'] // 8
        if app.enc['blob_lens'] != (klen, klen):
            V.append(('C10/rsa-blob-length', app.enc['blob_lens']))
    # framing discipline after set-compression
    for seq, state, pid, body, meta in app.frames:
        t = meta.get('threshold')
        if t is None:
            continue
        ob()
        if meta['data_len'] and meta['payload_len'] < t:
            V.append(('C10/compressed-below-threshold',
                      {'payload': meta['payload_len'], 'T': t}))
            break
        if not meta['data_len'] and meta['payload_len'] > t:
            V.append(('C10/uncompressed-above-threshold',
                      {'payload': meta['payload_len'], 'T': t}))
            break
    # --- plugin answers: exactly one per request actually sent
    sent_plugins = [info for _s, kind, info, _vt in app.sent
                    if kind == 'plugin-request']
    answered = {}
    for _s, mid, ok, data in app.plugin_answers:
        answered.setdefault(mid, []).append((ok, data))
    if lg.get('success_at_once') and \
            ids['sb.login.plugin_response'] is not None:
        # answers that reached the server after it had moved on to play
        for _s, stt, pid, body, _m in app.frames:
            if stt in ('play', 'paused') and \
                    pid == ids['sb.login.plugin_response']:
                try:
                    mid, p_ = wire.read_varint(body, 0)
                    answered.setdefault(mid, []).append(
                        (body[p_] != 0, bytes(body[p_ + 1:])))
                except Exception:
                    pass
        res.probes['login-success-before-plugin-answers'] = 1
    completed = ends_ok or True
    for mid in sorted(set(sent_plugins)):
        ob()
        a = answered.get(mid, [])
        n_req = sent_plugins.count(mid)
        must = ends_ok          # with success the server waited for answers
        if len(a) > n_req or (must and len(a) != n_req):
            V.append(('C10/plugin-answer-count',
                      {'mid': mid, 'answers': len(a), 'requests': n_req}))
            continue
        for ok, data in a:
            if scenario['user_plugin_listener']:
                form = scenario.get('user_answer', 'explicit')
                if scenario.get('answer_thread') and data.startswith(
                        b'user:'):
                    form = 'explicit'       # written by the answering thread
                good = {'explicit': ok and data.startswith(b'user:'),
                        'implied': ok and data.startswith(b'user:'),
                        'implied-empty': ok and data == b'',
                        'implied-declined': not ok and data == b''}[form]
                if not good:
                    V.append(('C10/plugin-user-answer-lost',
                              {'mid': mid, 'ok': ok, 'form': form,
                               'data': data.hex()[:24]}))
            elif ok or data:
                V.append(('C10/plugin-default-answer-not-unsuccessful',
                          {'mid': mid, 'ok': ok, 'data': data.hex()[:20]}))
    if V:
        return
    # --- ending
    if ends_ok:
        ob(5)
        if errs:
            V.append(('C10/unexpected-error:%s' % type(errs[0]).__name__,
                      str(errs[0])[:160]))
            return
        if not app.reached_play:
            V.append(('C10/play-not-reached', None))
            return
        ka = [b for _s, stt, pid, b, _m in app.frames
              if stt in ('play', 'paused') and
              pid == ids['sb.play.keep_alive']]
        want = wire.i64(77) if ids['later'][339] else wire.varint(77)
        if ka != [want]:
            V.append(('C10/keepalive-not-echoed-in-play',
                      [k.hex() for k in ka]))
        if st['reactor_at_ka'] != 'PlayingReactor':
            V.append(('C10/reactor-not-play', st['reactor_at_ka']))
        if len(st['exits']) != 1:
            V.append(('C10/exit-callback-count', len(st['exits'])))
        # the client decoded every (possibly encrypted/compressed) packet
        exp = []
        for s in steps:
            if s[0] == 'compress':
                exp.append('set compression')
            elif s[0] == 'encrypt':
                exp.append('encryption request')
            elif s[0] == 'plugin' and \
                    ids['cb.login.plugin_request'] is not None:
                exp.append('login plugin request')
            elif s[0] == 'success':
                exp.append('login success')
        exp += ['keep alive', 'disconnect']
        if k == 0 and scenario.get('negotiate'):
            exp = ['response'] + exp      # the status reply that came first
        ob()
        if st['log'] != exp:
            V.append(('C10/client-decoded-sequence',
                      {'got': st['log'], 'want': exp}))
    else:
        raw, kind, val = scenario['disc']
        ob(2)
        if not errs:
            V.append(('C10/login-disconnect-silent', {'msg': raw}))
            return
        e = errs[0]
        name = type(e).__name__
        if kind == 'outdated':
            if name != 'VersionMismatch' or \
                    getattr(e, 'server_version', None) != val:
                V.append(('C10/outdated-not-version-mismatch',
                          repr(e)[:160]))
        else:
            want = val if kind == 'text' else raw
            if name != 'LoginDisconnect' or want not in str(e):
                V.append(('C10/login-disconnect-message',
                          {'got': repr(e)[:160], 'want': want}))
    ob()
    if not st.get('quiet'):
        V.append(('C10/networking-thread-alive', None))
    if enc_step is not None and any(s[0] == 'compress' for s in steps):
        res.probes['compress-and-encrypt'] = 1
    if enc_step is not None and steps.index(enc_step) > 0 and \
            steps[0][0] == 'compress':
        res.probes['compress-before-encrypt'] = 1
    if len(sent_plugins) > 1:
        res.probes['pipelined-plugin-requests'] = 1


def shrink_scenario(sc):
    if sc.get('negotiate'):
        c = copy.deepcopy(sc)
        c['negotiate'] = False
        c['server']['conns'] = c['server']['conns'][1:]
        yield c
    if len(sc['logins']) > 1:
        for keep in (1, 0):
            c = copy.deepcopy(sc)
            c['logins'] = [c['logins'][keep]]
            o_ = 1 if c.get('negotiate') else 0
            c['server']['conns'] = c['server']['conns'][:o_] + \
                [c['server']['conns'][o_ + keep]]
            c['second_via'] = 'user'
            yield c
    for k, lg in enumerate(sc['logins']):
        for j in range(len(lg['steps']) - 1):
            c = copy.deepcopy(sc)
            del c['logins'][k]['steps'][j]
            c['server']['conns'][k + (1 if c.get('negotiate') else 0)][
                'login'] = c['logins'][k]['steps']
            yield c
    for k in ('segment', 'short_read'):
        if sc['net'].get(k):
            c = copy.deepcopy(sc)
            c['net'][k] = False
            yield c
    if sc['auth']:
        c = copy.deepcopy(sc)
        c['auth'] = False
        yield c
    if sc['user_plugin_listener']:
        c = copy.deepcopy(sc)
        c['user_plugin_listener'] = False
        yield c
    if sc['sched']['granularity'] != 'io':
        c = copy.deepcopy(sc)
        c['sched']['granularity'] = 'io'
        yield c


def evidence(tier, seed, m, d):
    return common.base_evidence(
        sys.modules[__name__], tier, seed, m, d,
        rule='seeded server login scripts from the grammar [compress(T)]? '
             '[encrypt]? [compress(T)]? with plugin requests inserted at any '
             'position (pipelined or single), ending in success or in a '
             'disconnect (9 message shapes) at any point; T in {0,1,64,256,'
             '2^31-1}; server ids \'\', \'-\', random; 1024/2048-bit keys; '
             'verify tokens of 1..64 bytes; with/without auth token and a '
             'session-service stub whose join reply may be an error; '
             'optional user plugin listener; in 30% of the cases the same Connection logs in a second time with a fresh script (often reusing plugin message ids); protocols either side of '
             '385/391/707; optional segmentation; evaluations = oracle '
             'obligations; non-trivial = script with more than one step; '
             'distinct = distinct run digests',
        extra_assumptions=['the session service is an in-process requests '
                           'transport adapter (real request encoding, no '
                           'TCP)'])

"""C15 - a server that stops mid-conversation never hangs or spins the client.

Crash-point sweep: for every reference conversation, every prefix length
0..N of the server's byte stream on the faulted TCP connection is run, followed
by end-of-stream (FIN).  Thorough adds tape-chosen segmentation/short reads
and more protocol versions on top of the same sweep.
"""
import copy
import json

from sim.world import World
from sim.tape import Tape, Policy, make_rng
from sim.ids import ids_for
from . import common

ID = 'C15'
LEVEL = 'fault_enumeration'
# scenario variants and fault kinds mixed into the seeded part (reported in
# the evidence; DESIGN 14.6 says where each came from)
VARIANTS = [
    "FIN and RST at every offset",
    "default version outside the allowed set",
    "every status query of the run cut",
    "completed status() before the negotiating connect()",
    "kick conversation with answers still owed",
    "socket descriptor beyond select()'s range (failing system call)",
    "no exception handler: error re-raised by the thread, application reconnects on seeing connection.exception"
]
WALL_CAP = {'quick': 240, 'thorough': 3000}
EOF_READ_LIMIT = 16

STATUS_JSON = json.dumps({'version': {'name': 'x', 'protocol': 0},
                          'description': {'text': 'sim'},
                          'players': {'max': 1, 'online': 0}})

_plan_cache = {}


def status_json(proto):
    d = json.loads(STATUS_JSON)
    d['version']['protocol'] = proto
    return json.dumps(d)


def play_items(proto, n=4):
    items = [['ka', 7], ['pos', 1.5, 64.0, -3.25, 90.0, 10.0, 0, 3, False],
             ['unknown', 0x7d, 'aa' * 40], ['ka', 300],
             ['chat', '{"text":"hello, world"}', 0, '00' * 16],
             ['time', 5, 6000],
             ['plugin', 'minecraft:brand', '0776616e696c6c61']][:n + 3]
    items.append(['expect', 3])
    items.append(['disconnect', '{"text":"bye"}'])
    return items


def conversations(tier):
    convs = []
    enc = ['encrypt', {'bits': 1024, 'token_hex': 'c0ffee11',
                       'server_id': '-'}]
    if tier == 'quick':
        protos = [757, 47]
    else:
        usable = set(common.supported())
        protos = [p for p in common.BOUNDARY_PROTOCOLS if p in usable]
    for proto in protos:
        other = 754 if proto != 754 else 757
        if tier != 'quick' and proto not in (757, 47, 340, 107) and \
                len(convs) % 3:
            pass
        pl = play_items(proto)
        convs.append({'name': 'status-call/%d' % proto, 'call': 'status',
                      'allowed': None, 'fault_conn': 0, 'ping': True,
                      'conns': [{'status': {'mode': 'reply',
                                            'json': status_json(proto)}}]})
        convs.append({'name': 'status-then-login[status]/%d' % proto,
                      'call': 'connect', 'allowed': [proto, other],
                      'initial': other, 'fault_conn': 0,
                      'conns': [{'status': {'mode': 'reply',
                                            'json': status_json(proto)}},
                                {'login': [['success']], 'play': pl}]})
        # the same negotiation on an object that has already completed a
        # plain status query: nothing remembered from that conversation may
        # change how this one ends
        convs.append({'name': 'status-call-then[status-then-login[status]]'
                              '/%d' % proto,
                      'call': 'connect', 'allowed': [proto, other],
                      'initial': other, 'fault_conn': 0,
                      'prior_status': True,
                      'conns': [{'status': {'mode': 'reply',
                                            'json': status_json(proto)}},
                                {'login': [['success']], 'play': pl}]})
        third = next(q for q in (340, 578, 107, 47, 757)
                     if q not in (proto, other))
        convs.append({'name': 'status-then-login[status,default-outside-'
                              'allowed]/%d' % proto,
                      'call': 'connect', 'allowed': [proto, other],
                      'initial': third, 'fault_conn': 0,
                      'conns': [{'status': {'mode': 'reply',
                                            'json': status_json(proto)}},
                                {'login': [['success']], 'play': pl}]})
        both = {'status': {'mode': 'reply', 'json': status_json(proto)},
                'login': [['success']], 'play': pl}
        convs.append({'name': 'status-then-login[every-status-query-cut]/%d'
                              % proto,
                      'call': 'connect', 'allowed': [proto, other],
                      'initial': other, 'fault_conn': 0,
                      'cut_every_status': True,
                      'conns': [copy.deepcopy(both) for _ in range(4)]})
        convs.append({'name': 'status-then-login[login]/%d' % proto,
                      'call': 'connect', 'allowed': [proto, other],
                      'initial': other, 'fault_conn': 1,
                      'conns': [{'status': {'mode': 'reply',
                                            'json': status_json(proto)}},
                                {'login': [['success']], 'play': pl}]})
        convs.append({'name': 'login-compressed/%d' % proto, 'call': 'connect',
                      'allowed': [proto], 'fault_conn': 0,
                      'conns': [{'login': [['compress', 32], ['success']],
                                 'play': pl}]})
        convs.append({'name': 'login-encrypted/%d' % proto, 'call': 'connect',
                      'allowed': [proto], 'fault_conn': 0,
                      'conns': [{'login': [enc, ['success']], 'play': pl}]})
        # frames far larger than any buffer size a reader might special-case
        # (a status response with a server icon, a big plugin message): cut
        # near both ends and at every 89th offset in between
        big_status = json.loads(status_json(proto))
        big_status['favicon'] = 'data:image/png;base64,' + 'QUJD' * 1700
        convs.append({'name': 'status-call[big-response]/%d' % proto,
                      'call': 'status', 'allowed': None, 'fault_conn': 0,
                      'ping': False, 'stride': 89,
                      'conns': [{'status': {'mode': 'reply',
                                            'json': json.dumps(big_status)}}]})
        convs.append({'name': 'play-big-frame/%d' % proto, 'call': 'connect',
                      'allowed': [proto], 'fault_conn': 0, 'stride': 89,
                      'conns': [{'login': [['success']],
                                 'play': [['ka', 7],
                                          ['plugin', 'big:data', 'ab' * 5000],
                                          ['ka', 8], ['expect', 2],
                                          ['disconnect',
                                           '{"text":"bye"}']]}]})
        # a kick that does not wait for the answers it is owed: the client's
        # own sends may fail while it winds the connection down
        convs.append({'name': 'play-kick/%d' % proto, 'call': 'connect',
                      'allowed': [proto], 'fault_conn': 0,
                      'net': {'send_error': True},
                      'conns': [{'login': [['success']],
                                 'play': [['ka', 7], pl[1], ['ka', 300],
                                          ['ka', 301],
                                          ['disconnect',
                                           '{"text":"kicked"}']]}]})
        if proto == protos[0] or tier != 'quick':
            convs.append({'name': 'login-both/%d' % proto, 'call': 'connect',
                          'allowed': [proto], 'fault_conn': 0,
                          'conns': [{'login': [enc, ['compress', 0],
                                               ['success']], 'play': pl}]})
            convs.append({'name': 'play-plain/%d' % proto, 'call': 'connect',
                          'allowed': [proto], 'fault_conn': 0,
                          'conns': [{'login': [['success']], 'play': pl}]})
    return convs


def make_scenario(conv, k, variant=None):
    base = 1 if conv.get('prior_status') else 0
    prior = [{'status': {'mode': 'reply', 'json': STATUS_JSON}}] \
        if base else []
    sc = {'conv': conv['name'], 'call': conv['call'],
          'allowed': conv['allowed'], 'initial': conv.get('initial'),
          'ping': conv.get('ping', False), 'fault_conn': conv['fault_conn'],
          'cut': k, 'base': base,
          'server': {'conns': prior + copy.deepcopy(conv['conns'])},
          'net': {'latency_us': 200, 'eof_read_limit': EOF_READ_LIMIT},
          'sched': {'granularity': 'io', 'max_steps': 100000},
          'rand_seed': 12345}
    sc['net'].update(conv.get('net') or {})
    if k is not None:
        sc['server']['conns'][base + conv['fault_conn']]['cut'] = k
        if conv.get('cut_every_status'):
            # a server that keeps failing the same way on reconnection
            sc['server']['status_cut'] = k
    if variant:
        variant = dict(variant)
        mode = variant.pop('cut_mode', None)
        if mode:
            # abortive close (RST) instead of FIN at the crash point
            sc['server']['conns'][base + conv['fault_conn']]['cut_mode'] = \
                mode
            sc['cut_mode'] = mode
        sc['net'].update(variant)
    return sc


def plan(tier):
    if tier in _plan_cache:
        return _plan_cache[tier]
    cases = []
    info = {}
    for conv in conversations(tier):
        sc = make_scenario(conv, None)
        res, w = _execute(sc, Tape(replay=[]), want_world=True)
        if res.violations or w.sim.end_state != 'done':
            raise common.HarnessError(
                'reference conversation %s does not complete: %r %r'
                % (conv['name'], res.violations, w.sim.end_state))
        app = w.server.apps[sc['base'] + conv['fault_conn']]
        n = app.conn.s2c_sent
        info[conv['name']] = {'n': n, 'frames': app.out_frames}
        stride = conv.get('stride')
        for k in range(n + 1):
            if stride and 64 <= k <= n - 64 and k % stride:
                continue
            cases.append((conv, k))
    _plan_cache[tier] = (cases, info)
    return _plan_cache[tier]


ROUNDS = {'quick': ['plain', 'rst', 'high-fd'],
          'thorough': ['plain', 'one-byte', 'segmented', 'rst', 'high-fd']}


def total(tier, seed):
    cases, _ = plan(tier)
    return len(cases) * len(ROUNDS[tier])


def scenario_for(seed, index, tier):
    cases, info = plan(tier)
    rounds = ROUNDS[tier]
    rnd = rounds[min(index // len(cases), len(rounds) - 1)]
    conv, k = cases[index % len(cases)]
    variant = None
    if rnd == 'one-byte':
        variant = {'one_byte_reads': True}
    elif rnd == 'rst':
        variant = {'cut_mode': 'rst'}
    elif rnd == 'high-fd':
        # the process already holds more than a thousand descriptors: the
        # socket's number is beyond what select() accepts (poll() does not
        # mind).  Failing at once with that error is fine, carrying on is
        # fine - spinning on the failing call or ending silently is not.
        variant = {'fd_base': 1100}
        if conv.get('prior_status'):
            # (the set-up query would be what fails)
            variant, rnd = None, 'plain'
    elif rnd == 'segmented':
        variant = {'segment': True, 'short_read': True}
    sc = make_scenario(conv, k, variant)
    sc['frames'] = info[conv['name']]['frames']
    sc['n'] = info[conv['name']]['n']
    sc['round'] = rnd
    # every third case: the application's exception handler hands the
    # clean-up (an idempotent disconnect()) to another thread and waits for
    # it - the networking thread must not be what keeps that thread waiting
    sc['helper'] = index % 3 == 0
    # every fifth case with a pinned version: the handler just tells another
    # thread, which calls connect() again at once - while the failed thread
    # may still be winding down (liveness only is judged then)
    sc['reconnector'] = (index % 5 == 1 and not sc['helper'] and
                         conv['allowed'] is not None and
                         len(conv['allowed']) == 1 and k is not None)
    # every seventh such case: no exception handler at all - the error is
    # re-raised from the networking thread and left in connection.exception
    # - and the application reconnects as soon as it sees it there
    sc['bare'] = (index % 7 == 3 and not sc['helper'] and
                  not sc['reconnector'] and conv['allowed'] is not None and
                  len(conv['allowed']) == 1 and k is not None)
    if sc['reconnector'] or sc['bare']:
        sc['server']['conns'].append(
            {'login': [['success']],
             'play': [['ka', 1], ['disconnect', '{"text":"second go"}']]})
    if rnd == 'segmented':
        sc['sched']['granularity'] = 'line'
    return sc


def policy(rng, scenario):
    if scenario.get('round') in ('segmented', 'rst'):
        return Policy(p_sched=rng.choice([0, 0.02, 0.1]),
                      p_event=rng.choice([0, 0.05, 0.3]),
                      p_short=0.4, p_seg=0.4, name='seg')
    if scenario['net'].get('send_error'):
        return Policy(p_io=rng.choice([0.3, 1.0]), name='plain+send-errors')
    return Policy(name='plain')


def _execute(scenario, tape, want_world=False):
    w = World(scenario, tape)
    st = {}

    def build(w):
        from minecraft.networking.connection import Connection
        from minecraft.networking.packets import Packet
        errs, exits, pkts, status, pings = [], [], [], [], []
        kw = {}
        if scenario['allowed'] is not None:
            kw['allowed_versions'] = scenario['allowed']
        if scenario.get('initial') is not None:
            kw['initial_version'] = scenario['initial']
        def on_exception(e, i):
            errs.append(e)
            if scenario.get('reconnector'):
                st['want_reconnect'] = True
            if scenario.get('helper') and not st.get('helper_gone'):
                st['req'] = st.get('req', 0) + 1
                want = st['req']
                # a hard wait: if the helper cannot get through, the run
                # ends as the deadlock it would be in real life
                w.sim.block(lambda: st.get('ack', 0) >= want or
                            st.get('helper_gone'), None,
                            reason='handler-waits-for-helper', poll=True,
                            patient=False)

        def helper():
            while True:
                w.wait_until(lambda: st.get('req', 0) > st.get('ack', 0) or
                             st.get('stop_helper'), budget=False)
                if st.get('req', 0) > st.get('ack', 0):
                    w.api('helper-disconnect', conn.disconnect)
                    st['ack'] = st['req']
                    continue
                st['helper_gone'] = True
                return
        conn = Connection('sim.example', 25565, username='crash',
                          handle_exception=(None if scenario.get('bare')
                                            else on_exception),
                          handle_exit=lambda: exits.append(w.sim.seq), **kw)
        if scenario.get('helper'):
            w.sim.spawn(helper, 'helper')

        def reconnector():
            w.wait_until(lambda: st.get('want_reconnect') or
                         st.get('stop_helper'), budget=False)
            if st.get('want_reconnect') and not st.get('stop_helper'):
                for _ in range(200):
                    r = w.api('reconnect', conn.connect)
                    st['reconnect'] = r
                    if r.ok or type(r.exc).__name__ != 'InvalidState':
                        break
                    w.sleep(100)
        if scenario.get('reconnector'):
            w.sim.spawn(reconnector, 'user1')

        def watcher():
            w.wait_until(lambda: conn.exception is not None or
                         st.get('stop_helper'), budget=False)
            if conn.exception is not None and not st.get('stop_helper'):
                errs.append(conn.exception)
                st['want_reconnect'] = True
                reconnector()
        if scenario.get('bare'):
            w.sim.spawn(watcher, 'user1')

        def on_packet(p):
            pkts.append((len(w.net.conns) - 1 - st.get('off', 0), p.id,
                         p.packet_name))
        conn.register_packet_listener(on_packet, Packet, early=True)
        st.update(conn=conn, errs=errs, exits=exits, pkts=pkts,
                  status=status, pings=pings)

        def user():
            if scenario.get('base'):
                r0 = w.api('status', conn.status, handle_status=False,
                           handle_ping=False)
                w.wait_until(lambda: common.networking_quiet(conn) and
                             common.all_net_done(w.sim), 30000000)
                if not r0.ok or errs:
                    raise common.HarnessError(
                        'the preceding status query failed: %r %r'
                        % (r0.exc, errs[:1]))
                del errs[:], exits[:], pkts[:]
                st['off'] = 1
            if scenario['call'] == 'status':
                r = w.api('status', conn.status, handle_status=status.append,
                          handle_ping=pings.append if scenario['ping']
                          else False)
            else:
                r = w.api('connect', conn.connect)
            st['call'] = r
            st['quiet'] = w.wait_until(
                lambda: common.networking_quiet(conn) and
                common.all_net_done(w.sim), 30000000)
            st['stop_helper'] = True
        w.sim.spawn(user, 'user0')

    w.run(build)
    res = common.result_from_world(w)
    check(scenario, w, st, res)
    if want_world:
        return res, w
    return res


def execute(scenario, tape):
    return _execute(scenario, tape)


def check(scenario, w, st, res):
    sim = w.sim
    V = res.violations
    k = scenario.get('cut')
    fc = scenario['fault_conn']

    def ob():
        res.obligations += 1
    res.summary = {'conversation': scenario['conv'], 'cut': k,
                   'of': scenario.get('n'), 'end': sim.end_state,
                   'net': {a: b for a, b in scenario['net'].items()
                           if a not in ('latency_us', 'eof_read_limit')}}
    res.nontrivial = k is not None
    res.state_sigs = []
    # liveness: bounded termination
    ob()
    if sim.end_state == 'inconclusive':
        # bounded termination IS the property here; every run of the
        # reference conversations needs only a few thousand steps
        V.append(('C15/no-termination-within-step-budget',
                  {'tcp_connections': len(w.net.conns)}))
        return
    if sim.end_state != 'done':
        if sim.fail_fast:
            V[:] = [('C15/' + s if not s.startswith('C15/') else s, d)
                    for s, d in V]
            return
        V.append(('C15/%s' % sim.end_state, repr(sim.end_detail)))
        return
    ob()
    if not st.get('quiet'):
        V.append(('C15/networking-thread-not-terminated', None))
        return
    if scenario.get('bare') and not st['errs'] and \
            st['conn'].exception is not None:
        st['errs'].append(st['conn'].exception)
    if (scenario.get('reconnector') or scenario.get('bare')) and \
            st.get('reconnect') is not None:
        # another thread reconnected while the failure was being handled:
        # what is judged is that everything terminated (above) and that the
        # reconnecting call itself came back
        ob()
        r = st['reconnect']
        if not r.ok and type(r.exc).__name__ != 'InvalidState':
            V.append(('C15/reconnect-during-failure-raised:%s'
                      % type(r.exc).__name__, str(r.exc)[:100]))
        res.probes['reconnect-while-failure-is-handled'] = 1
        return
    call = st['call']
    if not call.ok:
        V.append(('C15/call-raised', repr(call.exc)))
        return
    if k is None:
        # reference conversation must complete cleanly
        if st['errs']:
            V.append(('C15/reference-error', repr(st['errs'][:1])))
        return
    frames = scenario['frames']
    n = scenario['n']
    complete = [f for f in frames if f[1] <= k]
    kinds_done = [f[2] for f in complete]
    errs, exits = st['errs'], st['exits']
    apps = w.server.apps[scenario.get('base', 0):]
    # safety: only completely sent packets are delivered
    delivered = [p for p in st['pkts'] if p[0] == fc]
    ob()
    if len(delivered) > len(complete):
        V.append(('C15/incomplete-packet-delivered',
                  {'delivered': len(delivered), 'complete': len(complete)}))
    if scenario.get('cut_mode') == 'rst' or scenario.get('round') == 'high-fd':
        # an abortive close also discards what the client had not read yet,
        # and a descriptor select() rejects may end the thread before it
        # reads anything: only liveness (above), the safety clause (above)
        # and "not silent" are decided
        ob()
        names = [p[2] for p in st['pkts']]
        ended = 'disconnect' in names or (
            scenario['call'] == 'status' and
            ('ping' in names or ('response' in names and
                                 not scenario['ping'])))
        if not errs and not ended and not (
                len(apps) >= 2 and apps[1].handshake is not None):
            V.append(('C15/silent-exit:%s' % scenario.get('round', 'rst'),
                      {'cut': k}))
        res.probes['cut-by-rst' if scenario.get('cut_mode') == 'rst'
                   else 'descriptor-beyond-select-range'] = 1
        res.state_sigs = [(scenario['conv'], k, scenario.get('round', 'rst'))]
        return
    # classification
    status_phase = scenario['call'] == 'connect' and \
        scenario['allowed'] is not None and len(scenario['allowed']) > 1 \
        and fc == 0
    ob()
    if k >= n:
        # whole stream served: conversation ends normally
        if scenario['call'] == 'status' or 'disconnect' in kinds_done \
                or status_phase:
            if errs:
                V.append(('C15/error-after-complete-conversation',
                          repr(errs[:1])))
        return
    if status_phase:
        answered = 'status-response' in kinds_done
        if answered:
            if errs:
                V.append(('C15/error-after-answered-status', repr(errs[:1])))
            return
        fell_back = len(apps) >= 2 and apps[1].handshake is not None and \
            apps[1].handshake['protocol'] == scenario['initial'] and \
            apps[1].handshake['next_state'] == 2
        if fell_back:
            res.probes['status-fallback'] = 1
            if errs:
                V.append(('C15/error-after-fallback', repr(errs[:1])))
        elif errs:
            res.probes['status-eof-error'] = 1
        else:
            V.append(('C15/silent-exit:status-phase', {'cut': k}))
        return
    if scenario['call'] == 'status':
        answered = 'status-response' in kinds_done
        if answered and not scenario['ping']:
            return
        if 'pong' in kinds_done:
            return
        if not errs:
            V.append(('C15/silent-exit:status-call', {'cut': k}))
        return
    # login / play: an error must be reported, not a silent exit
    if 'disconnect' in kinds_done or 'login-disconnect' in kinds_done:
        return
    if not errs:
        V.append(('C15/silent-exit', {'cut': k, 'exits': len(exits)}))
    else:
        res.probes['eof-error:' + type(errs[0]).__name__] = 1
    # where did the cut fall?  (reach probes)
    for s, e, kind in frames:
        if s < k < e:
            res.probes['cut-inside:' + kind] = 1
            break
    else:
        res.probes['cut-at-boundary'] = 1
    res.state_sigs = [(scenario['conv'], k)]


def shrink_scenario(sc):
    if sc['net'].get('segment') or sc['net'].get('one_byte_reads'):
        c = copy.deepcopy(sc)
        c['net'].pop('segment', None)
        c['net'].pop('short_read', None)
        c['net'].pop('one_byte_reads', None)
        yield c
    if sc['sched']['granularity'] != 'io':
        c = copy.deepcopy(sc)
        c['sched']['granularity'] = 'io'
        yield c


def evidence(tier, seed, m, d):
    import sys
    cases, info = plan(tier)
    ev = common.base_evidence(
        sys.modules[__name__], tier, seed, m, d,
        rule='enumeration: every prefix length 0..N (FIN after byte k) of the '
             'server stream on the faulted TCP connection of each reference '
             'conversation; thorough repeats the sweep under 1-byte reads, '
             'random segmentation/short reads and line-level pre-emption. '
             'evaluations = oracle obligations; non-trivial = every run with '
             'a cut; distinct = distinct run digests')
    ev['coverage']['exhaustive'] = True
    ev['coverage']['crash_points'] = len(cases)
    ev['coverage']['conversations'] = {k: v['n'] for k, v in info.items()}
    return ev

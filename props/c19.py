"""C19 - auth token state follows the Yggdrasil replies; errors leave it
untouched.  Operation histories against an in-process HTTP stand-in whose
replies are the injected faults."""
import copy
import json
import sys
import zlib

from sim.tape import Tape, Policy, make_rng
from sim.runner import RunResult
from sim import authsvc
from . import common

ID = 'C19'
LEVEL = 'exploration'
# scenario variants and fault kinds mixed into the seeded part (reported in
# the evidence; DESIGN 14.6 says where each came from)
VARIANTS = [
    "error objects with empty-string fields",
    "status codes without a registered reason phrase",
    "odd bodies on success codes"
]
RUNS = {'quick': 30000, 'thorough': 1500000}
WALL_CAP = {'quick': 200, 'thorough': 3300}

AUTH = 'https://authserver.mojang.com/'
SESSION = 'https://sessionserver.mojang.com/session/minecraft/'
OPS = ['authenticate', 'refresh', 'validate', 'invalidate', 'join',
       'sign_out']
# incl. codes without a registered reason phrase (nginx 499, Cloudflare
# 520, ...)
ERR_CODES = [400, 401, 403, 404, 405, 415, 418, 429, 500, 502, 503, 419,
             451, 499, 520, 599]
BODIES = {
    'error-object': '{"error":"ForbiddenOperationException","errorMessage":'
                    '"Invalid credentials.","cause":"UserMigratedException"}',
    'error-object-no-cause': '{"error":"Method Not Allowed",'
                             '"errorMessage":"GET is not allowed"}',
    # complete error objects whose fields are empty strings (still error
    # objects: both keys are there)
    'error-object-empty-error': '{"error":"","errorMessage":"why",'
                                '"cause":"UserMigratedException"}',
    'error-object-empty-message': '{"error":"IllegalArgumentException",'
                                  '"errorMessage":""}',
    'error-object-both-empty': '{"error":"","errorMessage":"","cause":""}',
    # ... and ones with white space around them (still JSON)
    'error-object-leading-space': ' {"error":"ForbiddenOperationException",'
                                  '"errorMessage":"Invalid credentials."}',
    'error-object-leading-crlf': '\r\n\t{"error":"E","errorMessage":"m",'
                                 '"cause":"c"}\n',
    # the replies the real services are documented to give
    'error-object-invalid-token': '{"error":"ForbiddenOperationException",'
                           '"errorMessage":"Invalid token."}',
    'error-object-invalid-token-bare': '{"error":"ForbiddenOperationException",'
                                '"errorMessage":"Invalid token"}',
    'error-object-profile-assigned': '{"error":"IllegalArgumentException",'
                              '"errorMessage":"Access token already has a '
                              'profile assigned."}',
    'error-object-too-many': '{"error":"TooManyRequestsException","errorMessage":'
                      '"The client has sent too many requests within a '
                      'certain amount of time"}',
    'error-object-gone': '{"error":"ResourceException","errorMessage":'
                  '"The server has not found anything matching the request '
                  'URI","cause":"GoneException"}',
    'partial-error-object': '{"error":"OnlyError"}',
    'partial-error-object-2': '{"errorMessage":"only the message"}',
    'json-object-other': '{"foo":1}',
    # an error status whose body looks like a successful session (a proxy
    # rewriting statuses, a service answering 403 with the old session):
    # still an error reply, and not an error object
    'json-object-session': '{"accessToken":"stray-access","clientToken":'
                           '"stray-client","selectedProfile":{"id":'
                           '"0123456789abcdef0123456789abcdef","name":'
                           '"Stray"},"availableProfiles":[]}',
    'json-null': 'null',
    'json-number': '42',
    'json-list': '["error","errorMessage"]',
    'json-string': '"error and errorMessage in a string"',
    'non-json': '<html>502 Bad Gateway</html>',
    'empty': '',
}


def scenario_for(seed, index, tier):
    rng = make_rng('scenario', ID, seed, index)
    fields = {}
    mask = index % 32 if index < 64 else rng.randrange(32)
    names = ['username', 'access_token', 'client_token', 'profile_id',
             'profile_name']
    for i, n in enumerate(names):
        # an absent field is None - or blank (a saved session with an empty
        # entry): neither counts as present
        # (only the three token fields: the profile's own notion of
        # "populated" is `is not None`, which C19 does not go into)
        fields[n] = ('init-%s' % n) if mask & (1 << i) else \
            (None if i >= 3 or rng.random() < 0.75 else '')
    ops = []
    for _ in range(rng.randint(1, 8)):
        op = rng.choice(OPS)
        r = rng.random()
        if r < 0.5:
            reply = {'kind': 'valid'}
        elif r < 0.9:
            reply = {'kind': 'error', 'status': rng.choice(ERR_CODES),
                     'body': rng.choice(sorted(BODIES))}
        else:
            reply = {'kind': 'odd', 'status': rng.choice([200, 204]),
                     'body': rng.choice(sorted(BODIES))}
        ops.append({'op': op, 'reply': reply,
                    'invalidate_previous': rng.random() < 0.3,
                    'new_client_token': rng.random() < 0.3,
                    'n': len(ops)})
    return {'fields': fields, 'ops': ops, 'rand_seed': rng.randrange(2**32)}


def policy(rng, scenario):
    return Policy(name='none')


def valid_reply(op, step, tok_client):
    n = step['n']
    if op in ('authenticate', 'refresh'):
        ct = ('ct-new-%d' % n) if step['new_client_token'] or not tok_client \
            else tok_client
        return authsvc.Reply(200, json.dumps({
            'accessToken': 'at-%d' % n, 'clientToken': ct,
            'selectedProfile': {'id': 'pid-%d' % n, 'name': 'pname-%d' % n},
            'availableProfiles': [], 'user': {'id': 'x'}}))
    if op == 'sign_out':
        return authsvc.Reply(200, '')
    return authsvc.Reply(204, '')


def snapshot(tok):
    return (tok.username, tok.access_token, tok.client_token,
            tok.profile.id_, tok.profile.name)


def execute(scenario, tape):
    import minecraft.authentication as A
    from minecraft.exceptions import YggdrasilError
    res = RunResult()
    V = res.violations
    svc = authsvc.Service()
    simreq = authsvc.SimRequests(svc)

    class FakeUuid(object):
        n = [0]

        class _U(object):
            def __init__(self, h):
                self.hex = h

        @classmethod
        def uuid4(cls):
            cls.n[0] += 1
            return cls._U('%032x' % (0xabc0000 + cls.n[0]))
    saved = (A.requests, A.uuid)
    A.requests, A.uuid = simreq, FakeUuid
    hist = []
    try:
        f = scenario['fields']
        tok = A.AuthenticationToken(f['username'], f['access_token'],
                                    f['client_token'])
        tok.profile.id_ = f['profile_id']
        tok.profile.name = f['profile_name']

        def ob(n=1):
            res.obligations += n
        for step in scenario['ops']:
            op = step['op']
            before = snapshot(tok)
            all5 = all(before)
            ob()
            if bool(tok.authenticated) != bool(all5):
                V.append(('C19/authenticated-predicate',
                          {'fields': before, 'got': tok.authenticated}))
                break
            rp = step['reply']
            if rp['kind'] == 'valid':
                reply = valid_reply(op, step, tok.client_token)
            else:
                reply = authsvc.Reply(rp['status'], BODIES[rp['body']])
            svc.replies = [reply]
            n_req = len(svc.requests)
            exc = None
            ret = None
            try:
                if op == 'authenticate':
                    ret = tok.authenticate(
                        'user-%d' % step['n'], 'pw-%d' % step['n'],
                        invalidate_previous=step['invalidate_previous'])
                elif op == 'refresh':
                    ret = tok.refresh()
                elif op == 'validate':
                    ret = tok.validate()
                elif op == 'invalidate':
                    ret = tok.invalidate()
                elif op == 'join':
                    ret = tok.join('server-hash-%d' % step['n'])
                else:
                    ret = A.AuthenticationToken.sign_out(
                        'user-%d' % step['n'], 'pw-%d' % step['n'])
            except Exception as e:
                exc = e
            after = snapshot(tok)
            reqs = svc.requests[n_req:]
            hist.append((op, rp.get('status', rp['kind']), rp.get('body'),
                         type(exc).__name__ if exc else repr(ret), after))
            check_step(op, step, rp, before, after, ret, exc, reqs, V, ob,
                       YggdrasilError, res)
            if V:
                break
    finally:
        A.requests, A.uuid = saved
    res.digest = zlib.crc32(repr((scenario['fields'], hist)).encode())
    res.sched_sig = 0
    res.steps = len(hist)
    res.end_state = 'done'
    res.nontrivial = any(o['reply']['kind'] != 'valid'
                         for o in scenario['ops'])
    res.summary = {'initial': scenario['fields'],
                   'history': [(h[0], h[1], h[2], h[3]) for h in hist]}
    res.state_sigs = [tuple(k for k, v in sorted(
        scenario['fields'].items()) if v)]
    for o in scenario['ops']:
        if o['reply']['kind'] != 'valid':
            res.faults['http-reply'] = res.faults.get('http-reply', 0) + 1
            res.probes['body:' + o['reply']['body']] = \
                res.probes.get('body:' + o['reply']['body'], 0) + 1
    return res


def expected_request(op, step, before):
    n = step['n']
    username, at, ct, pid, pname = before
    if op == 'authenticate':
        p = {'agent': {'name': 'Minecraft', 'version': 1},
             'username': 'user-%d' % n, 'password': 'pw-%d' % n}
        if not step['invalidate_previous']:
            p['clientToken'] = ct if ct else '<uuid>'
        return AUTH + 'authenticate', p
    if op == 'refresh':
        return AUTH + 'refresh', {'accessToken': at, 'clientToken': ct}
    if op == 'validate':
        return AUTH + 'validate', {'accessToken': at}
    if op == 'invalidate':
        return AUTH + 'invalidate', {'accessToken': at, 'clientToken': ct}
    if op == 'join':
        return SESSION + 'join', {'accessToken': at,
                                  'selectedProfile': {'id': pid,
                                                      'name': pname},
                                  'serverId': 'server-hash-%d' % n}
    return AUTH + 'signout', {'username': 'user-%d' % n,
                              'password': 'pw-%d' % n}


def check_step(op, step, rp, before, after, ret, exc, reqs, V, ob, YErr,
               res):
    username, at, ct, pid, pname = before
    name = type(exc).__name__ if exc is not None else None
    # --- preconditions that must not contact the service
    local = None
    if op == 'refresh' and (at is None or ct is None):
        local = 'ValueError'
    elif op == 'validate' and at is None:
        local = 'ValueError'
    elif op == 'join' and not all(before):
        local = 'YggdrasilError'
    if local is not None:
        ob(3)
        if reqs:
            V.append(('C19/%s-contacted-service-without-credentials' % op,
                      reqs[0]['url']))
        elif name != local:
            V.append(('C19/%s-precondition-error' % op,
                      {'got': name, 'want': local}))
        elif after != before:
            V.append(('C19/credentials-changed-by-refused-%s' % op, None))
        res.probes['refused-locally:' + op] = 1
        return
    # --- the request
    ob(4)
    if len(reqs) != 1:
        V.append(('C19/%s-request-count' % op, len(reqs)))
        return
    url, payload = expected_request(op, step, before)
    rq = reqs[0]
    if rq['url'] != url or rq['method'] != 'POST':
        V.append(('C19/%s-endpoint' % op, {'got': rq['url'], 'want': url}))
        return
    got = rq['json']
    if isinstance(got, dict) and payload.get('clientToken') == '<uuid>':
        tokv = got.get('clientToken')
        if not (isinstance(tokv, str) and len(tokv) == 32):
            V.append(('C19/authenticate-generated-client-token', tokv))
            return
        payload = dict(payload, clientToken=tokv)
    if got != payload:
        V.append(('C19/%s-payload' % op, {'got': got, 'want': payload}))
        return
    ctype = {k.lower(): v for k, v in rq['headers'].items()}.get(
        'content-type', '')
    if not ctype.startswith('application/json'):
        V.append(('C19/%s-content-type' % op, ctype))
        return
    # --- the outcome
    if rp['kind'] == 'valid':
        ob(3)
        if exc is not None:
            V.append(('C19/%s-raised-on-success:%s' % (op, name),
                      str(exc)[:120]))
            return
        if ret is not True:
            V.append(('C19/%s-did-not-return-true' % op, repr(ret)))
            return
        if op in ('authenticate', 'refresh'):
            n = step['n']
            ct2 = ('ct-new-%d' % n) if step['new_client_token'] or not ct \
                else ct
            want = ('user-%d' % n if op == 'authenticate' else username,
                    'at-%d' % n, ct2, 'pid-%d' % n, 'pname-%d' % n)
            if after != want:
                V.append(('C19/%s-stored-credentials' % op,
                          {'got': after, 'want': want}))
        elif after != before:
            V.append(('C19/credentials-changed-by-%s' % op, None))
        return
    if rp['kind'] == 'error':
        code = rp['status']
        if op == 'validate':
            ob(2)
            if exc is not None or ret is True:
                V.append(('C19/validate-on-error-status',
                          {'ret': repr(ret), 'exc': name}))
            elif after != before:
                V.append(('C19/credentials-changed-by-failed-validate',
                          None))
            return
        ob(4)
        if exc is None:
            V.append(('C19/%s-error-reply-not-raised' % op,
                      {'status': code, 'ret': repr(ret)}))
            return
        if not isinstance(exc, YErr):
            V.append(('C19/error-reply-raised-%s' % name,
                      {'op': op, 'status': code, 'body': rp['body'],
                       'msg': str(exc)[:100]}))
            return
        if exc.status_code != code or str(code) not in str(exc):
            V.append(('C19/error-status-code-not-carried',
                      {'got': exc.status_code, 'want': code}))
            return
        body = BODIES[rp['body']]
        if rp['body'].startswith('error-object'):
            j = json.loads(body)
            if exc.yggdrasil_error != j['error'] or \
                    exc.yggdrasil_message != j['errorMessage'] or \
                    exc.yggdrasil_cause != j.get('cause') or \
                    j['error'] not in str(exc) or \
                    j['errorMessage'] not in str(exc):
                V.append(('C19/error-fields-not-carried',
                          {'err': exc.yggdrasil_error,
                           'msg': exc.yggdrasil_message,
                           'cause': exc.yggdrasil_cause}))
                return
        else:
            if 'alformed' not in str(exc) or \
                    exc.yggdrasil_error is not None or \
                    exc.yggdrasil_message is not None:
                V.append(('C19/malformed-error-body-not-reported',
                          {'body': rp['body'], 'msg': str(exc)[:100]}))
                return
        if after != before:
            V.append(('C19/credentials-changed-by-failed-%s' % op,
                      {'before': before, 'after': after}))
        return
    # 'odd' replies (200/204 with arbitrary bodies): only what the statement
    # fixes - validate is true only for 204
    if op == 'validate':
        ob()
        if exc is None and (ret is True) != (rp['status'] == 204):
            V.append(('C19/validate-true-only-for-204',
                      {'status': rp['status'], 'ret': repr(ret)}))


def shrink_scenario(sc):
    for j in range(len(sc['ops'])):
        if len(sc['ops']) > 1:
            c = copy.deepcopy(sc)
            del c['ops'][j]
            yield c
    for k, v in sc['fields'].items():
        if v is not None:
            c = copy.deepcopy(sc)
            c['fields'][k] = None
            yield c


def evidence(tier, seed, m, d):
    ev = common.base_evidence(
        sys.modules[__name__], tier, seed, m, d,
        rule='seeded operation histories (1..8 ops over authenticate, '
             'refresh, validate, invalidate, join, sign_out) x initial token '
             'state (all 32 subsets of the five credential fields in the '
             'first 64 cases, random afterwards) x per-request reply: valid '
             'result, or error status in %s x 11 body shapes (error object, '
             'partial error objects, JSON null/number/list/string/other '
             'object, non-JSON, empty), or 200/204 with an arbitrary body; '
             'evaluations = oracle obligations; non-trivial = at least one '
             'faulty reply in the history; distinct = distinct (initial '
             'state, history, outcomes) digests' % ERR_CODES)
    ev['coverage']['real_components'] = [
        'minecraft.authentication (AuthenticationToken, Profile, '
        '_make_request, _raise_from_response)', 'minecraft.exceptions',
        'requests (Session, request preparation, JSON/body encoding, '
        'Response decoding)']
    ev['coverage']['stub_components'] = [
        'HTTP transport adapter (in-process stand-in for authserver/'
        'sessionserver)', 'uuid.uuid4 as seen by authentication.py']
    ev['assumptions'] = [
        'single-threaded: the fault dimension is the sequence of service '
        'replies (no schedule involved)',
        'replies with status 200/204 and a body that is not a valid result '
        'are outside the statement except for validate; nothing is asserted '
        'about them']
    return ev

"""C13 - listeners fire in documented order, once each; ignore stops later
stages (incoming) / suppresses the write (early outgoing)."""
import copy
import sys

from sim.world import World
from sim.tape import Tape, Policy, make_rng
from sim.ids import ids_for
from sim import wire
from . import common

ID = 'C13'
LEVEL = 'exploration'
# scenario variants and fault kinds mixed into the seeded part (reported in
# the evidence; DESIGN 14.6 says where each came from)
VARIANTS = [
    "incoming listeners that write forced packets",
    "outgoing listeners that write forced packets (nested)",
    "ignorable set-compression",
    "kick with failing sends: incoming oracle by consumed bytes, outgoing oracle for frames that reached the wire",
    "early listener that disconnects",
    "forced write after the session ended"
]
RUNS = {'quick': 5000, 'thorough': 200000}
WALL_CAP = {'quick': 200, 'thorough': 3300}

IN_TYPES = ['Packet', 'AbstractKeepAlive', 'cb.KeepAlive', 'cb.Chat',
            'cb.Position', 'cb.TimeUpdate', 'cb.login.PluginRequest',
            'cb.play.Disconnect', 'sb.Chat', 'cb.login.SetCompression']
OUT_TYPES = ['Packet', 'AbstractKeepAlive', 'sb.KeepAlive', 'sb.Chat',
             'sb.TeleportConfirm', 'sb.login.PluginResponse', 'sb.Handshake',
             'cb.Chat']
MATCH_IN = {
    'ka': {'Packet', 'AbstractKeepAlive', 'cb.KeepAlive'},
    'chat': {'Packet', 'cb.Chat'},
    'pos': {'Packet', 'cb.Position'},
    'time': {'Packet', 'cb.TimeUpdate'},
    'pmsg': {'Packet', 'cb.PluginMessage', 'AbstractPluginMessage'},
    'unknown': {'Packet'},
    'plugin-req': {'Packet', 'cb.login.PluginRequest'},
    'login-success': {'Packet'},
    'set-compression': {'Packet', 'cb.login.SetCompression'},
    'disconnect': {'Packet', 'cb.play.Disconnect'},
}
MATCH_OUT = {
    'hs': {'Packet', 'sb.Handshake'},
    'login-start': {'Packet'},
    'ka': {'Packet', 'AbstractKeepAlive', 'sb.KeepAlive'},
    'tp': {'Packet', 'sb.TeleportConfirm'},
    'pos-echo': {'Packet'},
    'chat': {'Packet', 'sb.Chat'},
    'plugin-resp': {'Packet', 'sb.login.PluginResponse'},
    'sentinel': {'Packet'},
}
IGNORABLE_IN = ['ka', 'chat', 'pos', 'time', 'unknown', 'plugin-req',
                'set-compression']
IGNORABLE_OUT = ['ka', 'chat', 'tp', 'plugin-resp']
UUID0 = '00' * 16


def scenario_for(seed, index, tier):
    rng = make_rng('scenario', ID, seed, index)
    sup = common.supported()
    proto = common.pick_proto(rng, sup)
    if rng.random() < 0.06:
        # listeners registered while the session is running - by a listener
        # on the networking thread and by a user thread at the same time,
        # into the same class; every one of them must see the next packet
        return {
            'kind': 'concurrent-registration', 'proto': proto,
            'n': rng.choice([3, 8, 20]), 'early': rng.random() < 0.5,
            # the late listeners ask for the packet's own class, for a
            # super-class of it, or alternately; and a packet of that class
            # may already have passed before they are registered
            'filter': rng.choice(['exact', 'super', 'mixed']),
            'server': {'conns': [{'login': [['success']],
                                  'play': ([['chat', '{"text":"before"}', 0,
                                             UUID0]]
                                           if rng.random() < 0.6 else []) +
                                  [['ka', 1]]}]},
            'net': {'latency_us': rng.choice([50, 500])},
            'sched': {'granularity': 'line', 'max_steps': 400000},
            'listeners': [], 'history': [], 'writes': [], 'login': [],
            # before its final disconnect() the user thread queues a few
            # packets: they are flushed by the networking thread or by that
            # disconnect() itself, and go through the outgoing listeners
            # (an early one ignores one of them) either way
            'farewell': make_rng('farewell', ID, seed, index).choice(
                [0, 2, 5, 5]),
            'rand_seed': rng.randrange(2**32),
        }
    ids = ids_for(proto)
    listeners = []
    for i in range(rng.randint(0, 10)):
        outgoing = rng.random() < 0.4
        pool = OUT_TYPES if outgoing else IN_TYPES
        types = rng.sample(pool, rng.choice([0, 1, 1, 1, 2, 3]))
        ign_pool = IGNORABLE_OUT if outgoing else IGNORABLE_IN
        ignore = rng.sample(ign_pool, rng.choice([0, 0, 0, 1, 2])) \
            if rng.random() < 0.5 else []
        # an incoming listener may itself write a packet at once (forced)
        # while the incoming packet is still being dispatched
        fw = rng.sample(['ka', 'chat', 'pos', 'time', 'unknown'],
                        rng.choice([1, 2])) \
            if (not outgoing and rng.random() < 0.15) else []
        # an outgoing listener may itself write a packet at once (forced,
        # re-entrant) while the keep-alive answer it was shown is being
        # written; that nested packet goes through the outgoing listeners
        # like any other
        ofw = ['ka'] if (outgoing and rng.random() < 0.12) else []
        listeners.append({'id': i, 'early': rng.random() < 0.5,
                          'outgoing': outgoing, 'types': types,
                          'ignore': ignore, 'fw': fw, 'ofw': ofw})
    for l in list(listeners):
        if len(listeners) < 12 and rng.random() < 0.12:
            # the same callable registered a second time, for other packet
            # types, later on (with other listeners in between): two
            # registrations, two places in the order
            pool = OUT_TYPES if l['outgoing'] else IN_TYPES
            alias = dict(l, id=len(listeners), cb=l['id'],
                         types=rng.sample(pool, rng.choice([1, 1, 2])))
            listeners.append(alias)
    known = set(ids['cb.play.known'])
    login = []
    if ids['cb.login.plugin_request'] is not None:
        for m in range(rng.choice([0, 0, 1, 3])):
            login.append(['plugin', 10 + m, 'l:%d' % m, '0a0b'])
    if rng.random() < 0.3:
        login.insert(rng.randint(0, len(login)),
                     ['compress', rng.choice([0, 64, 100000])])
    login.append(['success'])
    hist = []
    # now and then a history longer than one read round of the networking
    # thread (it reads at most 50 packets before it writes again)
    n_hist = rng.randint(1, 14) if rng.random() < 0.95 \
        else rng.choice([49, 50, 51, 60, 130])
    for j in range(n_hist):
        k = rng.random()
        if k < 0.35:
            hist.append(['ka', 1000 + j])
        elif k < 0.5:
            hist.append(['pos', 1.0 * j, 64.0, -2.0, 0.0, 0.0, 0, 500 + j,
                         False])
        elif k < 0.7:
            hist.append(['chat', '{"text":"in%d"}' % j, 0, UUID0])
        elif k < 0.85:
            hist.append(['time', j, 100 + j])
        else:
            uid = rng.choice([i for i in range(0x80) if i not in known]) \
                if rng.random() < 0.75 else \
                rng.choice([0x80, 0xC8, 0x3FFF, 0x4000])
            hist.append(['unknown', uid, '%02x' % j])
    writes = [[rng.choice(['q', 'f']), 'out%d' % j]
              for j in range(rng.choice([0, 0, 1, 3, 6]))]
    rp = make_rng('pmsg', ID, seed, index)
    if rp.random() < 0.35:
        # play-state plugin messages (brand channel and the like), and
        # listeners that ask for that class or its abstract super-class
        for j in range(rp.choice([1, 2])):
            hist.insert(rp.randrange(len(hist) + 1),
                        ['plugin', 'c13:%d' % j, '%02x%02x' % (j, 7)])
        for l in listeners:
            if not l['outgoing'] and len(l['types']) < 3 and \
                    rp.random() < 0.5:
                l['types'].append(rp.choice(['cb.PluginMessage',
                                             'AbstractPluginMessage']))
    sc = {
        'proto': proto, 'listeners': listeners, 'login': login,
        'history': hist, 'writes': writes,
        'net': {'latency_us': rng.choice([50, 500]),
                'segment': rng.random() < 0.3, 'short_read': False},
        'sched': {'granularity': rng.choice(['io', 'line']),
                  'max_steps': 400000},
        'rand_seed': rng.randrange(2**32),
    }
    sc['late_write'] = rng.random() < 0.25
    if rng.random() < 0.12:
        # 'kick': like a real server, it closes its socket right after the
        # disconnect packet instead of waiting for the client's answers, so
        # the client's own sends may fail (send-error fault) while packets
        # are still waiting to be read
        sc['kick'] = True
        sc['net']['send_error'] = True
        # the packets arrive in two or three bursts, and a slow outgoing
        # listener keeps the networking thread in its write phase for a while
        for _ in range(rng.choice([1, 2])):
            hist.insert(rng.randint(1, len(hist)),
                        ['pause', rng.choice([500, 5000, 60000])])
        sc['slow_out_us'] = rng.choice([0, 2000, 20000, 100000])
        sc['net']['segment'] = rng.random() < 0.6
        sc['writes'] = [['q', t] for _m, t in sc['writes']]
        for l in listeners:
            l['fw'] = []
            l['ofw'] = []
    elif rng.random() < 0.08:
        # an early incoming listener leaves the game: it calls disconnect()
        # and returns normally - the packet it was shown still goes through
        # the remaining stages (only IgnorePacket stops them), after which
        # the networking thread reads nothing more
        kinds = sorted(set(it[0] for it in hist))
        sc['early_disc'] = rng.choice(kinds)
        listeners.insert(rng.randint(0, len(listeners)),
                         {'id': 90, 'early': True, 'outgoing': False,
                          'types': ['Packet'], 'ignore': [], 'fw': [],
                          'disc': sc['early_disc']})
        sc['writes'] = [['q', t] for _m, t in sc['writes']]
        for l in listeners:
            l['fw'] = []
            l['ofw'] = []
    rd = make_rng('deco', ID, seed, index)
    plain = [j for j, l in enumerate(listeners)
             if 'cb' not in l and 'disc' not in l and l.get('id') != 90 and
             not any(m.get('cb') == l['id'] for m in listeners)]
    if plain and rd.random() < 0.25:
        # two functions registered through ONE decorator object
        # (d = connection.listener(types, early=..., outgoing=...);
        # d(f); d(g)): both get the options the decorator was made with
        j = rd.choice(plain)
        twin = copy.deepcopy(listeners[j])
        twin['id'] = 1 + max(l['id'] for l in listeners)
        listeners[j]['deco'] = twin['deco'] = listeners[j]['id']
        listeners.insert(j + 1, twin)
    finish(sc)
    return sc


def finish(sc):
    """(Re)build the server script from the scenario's own fields."""
    ref = reference(sc)
    # an early listener that ignores the set-compression packet suppresses
    # the built-in reaction: the client keeps the old framing, so must the
    # server
    sc['login'] = [[('compress' if ref['compression_reacted'] else
                     'compress_noswitch') if s_[0].startswith('compress')
                    else s_[0]] + list(s_[1:]) for s_ in sc['login']]
    play = list(sc['history'])
    if sc.get('kick'):
        play.append(['disconnect', '{"text":"end"}'])
        play.append(['close'])
    else:
        play.append(['expect', ref['expected_play_frames']])
        play.append(['disconnect', '{"text":"end"}'])
    sc['server'] = {'conns': [{'login': sc['login'], 'play': play,
                               'no_wait_plugins': ref['unanswered_plugins']}]}


def policy(rng, scenario):
    if scenario.get('kind') == 'concurrent-registration':
        if rng.random() < 0.5:
            d = rng.choice([2, 3, 5])
            return Policy(pct_depth=d, pct_len=rng.choice([200, 800, 3000]),
                          name='c13-reg-pct%d' % d)
        return Policy(p_sched=rng.choice([0.05, 0.2, 0.5]), name='c13-reg')
    if scenario.get('kick'):
        return Policy(p_sched=rng.choice([0, 0.01]),
                      p_event=rng.choice([0, 0.1, 0.3]), p_seg=0.3,
                      p_io=rng.choice([0.3, 1.0]), name='c13-kick')
    return Policy(p_sched=rng.choice([0, 0.01, 0.1]),
                  p_event=rng.choice([0, 0.1, 0.3]), p_seg=0.3, name='c13')


def matching(listeners, kind, outgoing, early, table):
    return [l for l in listeners if l['outgoing'] == outgoing and
            l['early'] == early and set(l['types']) & table[kind]]


def dispatch_in(listeners, kind):
    """Reference incoming dispatch: -> (calls [(lid, stage)], reacted)."""
    calls = []
    for l in matching(listeners, kind, False, True, MATCH_IN):
        calls.append(l.get('cb', l['id']))
        if kind in l['ignore']:
            return calls, False
    for l in matching(listeners, kind, False, False, MATCH_IN):
        calls.append(l.get('cb', l['id']))
        if kind in l['ignore']:
            break
    return calls, True


def dispatch_out(listeners, kind):
    """-> (early calls, written?, ordinary calls)."""
    e = []
    for l in matching(listeners, kind, True, True, MATCH_OUT):
        e.append(l.get('cb', l['id']))
        if kind in l['ignore']:
            return e, False, []
    o = []
    for l in matching(listeners, kind, True, False, MATCH_OUT):
        o.append(l.get('cb', l['id']))
        if kind in l['ignore']:
            break
    return e, True, o


def reference(sc):
    ids = ids_for(sc['proto'])
    L = sc['listeners']
    incoming = []        # (key, kind)
    for s in sc['login']:
        if s[0] == 'plugin':
            incoming.append((('plugin-req', s[1]), 'plugin-req'))
        elif s[0].startswith('compress'):
            incoming.append((('set-compression', s[1]), 'set-compression'))
        elif s[0] == 'success':
            incoming.append((('login-success',), 'login-success'))
    for it in sc['history']:
        if it[0] == 'ka':
            incoming.append((('ka', it[1]), 'ka'))
        elif it[0] == 'pos':
            incoming.append((('pos', it[7] if ids['later'][107]
                              else it[1]), 'pos'))
        elif it[0] == 'chat':
            incoming.append((('chat', it[1]), 'chat'))
        elif it[0] == 'time':
            incoming.append((('time', it[1]), 'time'))
        elif it[0] == 'unknown':
            incoming.append((('unknown', it[1]), 'unknown'))
        elif it[0] == 'plugin':
            incoming.append((('pmsg', it[1]), 'pmsg'))
    incoming.append((('disconnect',), 'disconnect'))
    exp_in = []
    compression_reacted = True
    outgoing = [(('hs',), 'hs'), (('login-start',), 'login-start')]
    fw_count = {}
    by_id = {l['id']: l for l in L}
    groups = []
    ended_by_listener = False
    for key, kind in incoming:
        calls, reacted = dispatch_in(L, kind)
        exp_in += [(lid, key) for lid in calls]
        groups.append([(lid, key) for lid in calls])
        if any(by_id[lid].get('disc') == kind for lid in calls):
            # that listener disconnected: this packet completes its stages,
            # nothing after it is read
            ended_by_listener = True
            break
        for lid in calls:
            if kind in by_id[lid].get('fw', ()):
                n = fw_count.get(lid, 0)
                fw_count[lid] = n + 1
                outgoing.append((('chat', 'fw-%d-%d' % (lid, n)), 'chat'))
        if kind == 'set-compression':
            compression_reacted = reacted
        if reacted:
            if kind == 'ka':
                outgoing.append((('ka', key[1]), 'ka'))
            elif kind == 'pos':
                if ids['later'][107]:
                    outgoing.append((('tp', key[1]), 'tp'))
                else:
                    outgoing.append((('pos-echo', key[1]), 'pos-echo'))
            elif kind == 'plugin-req':
                outgoing.append((('plugin-resp', key[1]), 'plugin-resp'))
    for mode, text in sc['writes']:
        outgoing.append((('chat', text), 'chat'))
    # queued last by the user thread: once the server has it, every earlier
    # user packet has been through the outgoing listeners
    outgoing.append((('sentinel',), 'sentinel'))
    if sc.get('late_write') and not sc.get('kick') and \
            not sc.get('early_disc'):
        # a forced write after the session is over: the early listeners see
        # the packet, then the write fails - it never reaches the wire, so
        # no ordinary outgoing listener may be told that it was sent
        outgoing.append((('chat', 'late'), 'chat'))
    exp_out = {}
    play_frames = 0
    answered = set()
    ofw_count = {}
    nested = []
    for key, kind in outgoing:
        e, written, o = dispatch_out(L, kind)
        for lid in e + o:
            if kind in by_id[lid].get('ofw', ()):
                n = ofw_count.get(lid, 0)
                ofw_count[lid] = n + 1
                nested.append((('chat', 'nfw-%d-%d' % (lid, n)), 'chat'))
    for key, kind in outgoing + nested:
        e, written, o = dispatch_out(L, kind)
        if key == ('chat', 'late'):
            written, o = False, []
        exp_out[key] = (e, written, o)
        if written and kind in ('ka', 'tp', 'pos-echo', 'chat', 'sentinel'):
            play_frames += 1
        if written and kind == 'plugin-resp':
            answered.add(key[1])
    unanswered = [s[1] for s in sc['login'] if s[0] == 'plugin'
                  and s[1] not in answered]
    return {'incoming': incoming, 'exp_in': exp_in, 'exp_out': exp_out,
            'exp_in_groups': groups,
            'ended_by_listener': ended_by_listener,
            'expected_play_frames': play_frames,
            'unanswered_plugins': unanswered,
            'compression_reacted': compression_reacted}


def execute_registration(scenario, tape):
    w = World(scenario, tape)
    st = {'errs': [], 'calls': [], 'in_play': False, 'net_done': False,
          'user_done': False, 'fare': []}
    n = scenario['n']

    def build(w):
        from minecraft.networking.connection import Connection
        from minecraft.networking.packets import clientbound as cb
        conn = Connection('sim.example', 25565, username='registrar',
                          allowed_versions=[scenario['proto']],
                          handle_exception=lambda e, i: (
                              [] if st.get('closing') else
                              st['errs']).append(e))

        from minecraft.networking.packets import Packet

        def late(tag):
            def cb_(p):
                if isinstance(p, cb.play.ChatMessagePacket) and \
                        'probe' in p.json_data:
                    st['calls'].append(tag)
            return cb_

        def cls(i):
            f = scenario.get('filter', 'exact')
            if f == 'super' or (f == 'mixed' and i % 2):
                return Packet
            return cb.play.ChatMessagePacket

        def on_ka(p):
            if st['net_done']:
                return
            for i in range(n):
                conn.register_packet_listener(
                    late(('net', i)), cls(i), early=scenario['early'])
            st['net_done'] = True
        conn.register_packet_listener(on_ka, cb.play.KeepAlivePacket)
        conn.register_packet_listener(
            lambda p: st.__setitem__('in_play', True),
            cb.login.LoginSuccessPacket)

        from minecraft.networking.packets import serverbound as sb
        from minecraft.networking.connection import IgnorePacket
        fare = scenario.get('farewell', 0)

        def fare_early(p):
            st['fare'].append(('e', p.message))
            if p.message == 'farewell-1':
                raise IgnorePacket

        def fare_late(p):
            st['fare'].append(('o', p.message))
        if fare:
            conn.register_packet_listener(fare_early, sb.play.ChatPacket,
                                          early=True, outgoing=True)
            conn.register_packet_listener(fare_late, sb.play.ChatPacket,
                                          outgoing=True)

        def user():
            st['connect'] = w.api('connect', conn.connect)
            w.wait_until(lambda: st['in_play'] or st['errs'], 30000000)
            for i in range(n):
                conn.register_packet_listener(
                    late(('user', i)), cls(i), early=scenario['early'])
            st['user_done'] = True
            w.wait_until(lambda: st['net_done'] or st['errs'], 30000000)
            app = w.server.apps[0]
            w.sim.after(0, lambda: w.server.inject(
                app, ['chat', '{"text":"probe"}', 0, UUID0]), 'probe')
            w.wait_until(lambda: len(st['calls']) >= 2 * n or st['errs'],
                         budget=20000)
            # (the networking thread may report its own EOF / closed-file
            # error when another thread disconnects: not our subject)
            st['closing'] = True
            for i in range(fare):
                w.api('write', conn.write_packet,
                      sb.play.ChatPacket(message='farewell-%d' % i))
            w.api('disconnect', conn.disconnect)
            st['quiet'] = w.wait_until(
                lambda: common.all_net_done(w.sim), 10000000)
            if fare:
                w.wait_until(lambda: app.fin_seen, 10000000, budget=20000)
        w.sim.spawn(user, 'user0')

    w.run(build)
    res = common.result_from_world(w)
    V = res.violations
    res.summary = {'kind': scenario['kind'], 'proto': scenario['proto'],
                   'n': n, 'early': scenario['early'],
                   'end': w.sim.end_state}
    res.nontrivial = bool(w.sim.stats.get('preempt'))
    res.state_sigs = [('registration', n, scenario['early'])]
    res.obligations += 3
    if w.sim.end_state == 'inconclusive':
        return res
    if w.sim.end_state != 'done':
        V.append(('C13/%s:concurrent-registration' % w.sim.end_state,
                  repr(w.sim.end_detail)))
        return res
    if st['errs']:
        V.append(('C13/error-reported:%s' % type(st['errs'][0]).__name__,
                  str(st['errs'][0])[:120]))
        return res
    calls = st['calls']
    missing = [(who, i) for who in ('net', 'user') for i in range(n)
               if calls.count((who, i)) == 0]
    dup = sorted(set(c for c in calls if calls.count(c) > 1))
    if missing:
        V.append(('C13/registered-listener-never-called',
                  {'missing': missing[:4], 'n_missing': len(missing)}))
    elif dup:
        V.append(('C13/registered-listener-called-twice', dup[:4]))
    else:
        for who in ('net', 'user'):
            seq = [i for w_, i in calls if w_ == who]
            if seq != sorted(seq):
                V.append(('C13/registration-order-not-kept',
                          {'by': who, 'order': seq[:10]}))
                break
    res.probes['listeners-registered-concurrently'] = 1
    fare = scenario.get('farewell', 0)
    if fare and st.get('quiet'):
        # packets queued just before a user-thread disconnect(): early
        # outgoing listeners see each once and in order, the ignored one is
        # not written, ordinary outgoing listeners see exactly the written
        res.obligations += 3
        res.probes['farewell-flush-checked'] = 1
        texts = ['farewell-%d' % i for i in range(fare)]
        kept = [t for t in texts if t != 'farewell-1']
        want = {wire.string(t): t for t in texts}
        wired = [want[bytes(body)] for seq, state, pid, body, meta
                 in w.server.apps[0].frames if bytes(body) in want]
        e = [t for k, t in st['fare'] if k == 'e' and t in texts]
        o = [t for k, t in st['fare'] if k == 'o' and t in texts]
        if e != texts:
            V.append(('C13/early-outgoing-listener-calls:farewell-flush',
                      {'seen': e, 'queued': texts}))
        elif 'farewell-1' in wired:
            V.append(('C13/ignored-outgoing-packet-was-written:'
                      'farewell-flush', {'wire': wired}))
        elif o != wired or (w.server.apps[0].fin_seen and wired != kept):
            V.append(('C13/outgoing-listener-calls:farewell-flush',
                      {'ordinary': o, 'wire': wired, 'expected': kept}))
    return res


def execute(scenario, tape):
    if scenario.get('kind') == 'concurrent-registration':
        return execute_registration(scenario, tape)
    w = World(scenario, tape)
    st = {'errs': [], 'exits': [], 'calls': [], 'in_play': False}
    ids = ids_for(scenario['proto'])

    def build(w):
        from minecraft.networking.connection import Connection
        from minecraft.networking import packets as P
        from minecraft.networking.packets import (Packet, clientbound as cb,
                                                   serverbound as sb)
        from minecraft.exceptions import IgnorePacket
        T = {'Packet': Packet, 'AbstractKeepAlive': P.AbstractKeepAlivePacket,
             'cb.KeepAlive': cb.play.KeepAlivePacket,
             'cb.Chat': cb.play.ChatMessagePacket,
             'cb.Position': cb.play.PlayerPositionAndLookPacket,
             'cb.TimeUpdate': cb.play.TimeUpdatePacket,
             'cb.PluginMessage': cb.play.PluginMessagePacket,
             'AbstractPluginMessage': P.AbstractPluginMessagePacket,
             'cb.login.PluginRequest': cb.login.PluginRequestPacket,
             'cb.login.SetCompression': cb.login.SetCompressionPacket,
             'cb.play.Disconnect': cb.play.DisconnectPacket,
             'sb.KeepAlive': sb.play.KeepAlivePacket,
             'sb.Chat': sb.play.ChatPacket,
             'sb.TeleportConfirm': sb.play.TeleportConfirmPacket,
             'sb.login.PluginResponse': sb.login.PluginResponsePacket,
             'sb.Handshake': sb.handshake.HandShakePacket}
        conn = Connection('sim.example', 25565, username='listener',
                          allowed_versions=[scenario['proto']],
                          handle_exception=lambda e, i: st['errs'].append(e),
                          handle_exit=lambda: st['exits'].append(1))
        w.conn = conn

        def key_in(p):
            n = p.packet_name
            if type(p) is Packet:
                return ('unknown', p.id), 'unknown'
            if isinstance(p, cb.play.PluginMessagePacket):
                return ('pmsg', p.channel), 'pmsg'
            if n == 'keep alive':
                return ('ka', p.keep_alive_id), 'ka'
            if n == 'player position and look':
                return ('pos', p.teleport_id if ids['later'][107]
                        else p.x), 'pos'
            if n == 'chat message':
                return ('chat', p.json_data), 'chat'
            if n == 'time update':
                return ('time', p.world_age), 'time'
            if n == 'login plugin request':
                return ('plugin-req', p.message_id), 'plugin-req'
            if n == 'set compression':
                return ('set-compression', p.threshold), 'set-compression'
            if n == 'login success':
                return ('login-success',), 'login-success'
            if n == 'disconnect':
                return ('disconnect',), 'disconnect'
            return (n,), n

        def key_out(p):
            n = p.packet_name
            if n == 'handshake':
                return ('hs',), 'hs'
            if n == 'login start':
                return ('login-start',), 'login-start'
            if n == 'keep alive':
                return ('ka', p.keep_alive_id), 'ka'
            if n == 'teleport confirm':
                return ('tp', p.teleport_id), 'tp'
            if n == 'position and look':
                return ('pos-echo', p.x), 'pos-echo'
            if n == 'chat':
                return ('chat', p.message), 'chat'
            if n == 'login plugin response':
                return ('plugin-resp', p.message_id), 'plugin-resp'
            if type(p).__name__ == 'PluginMessagePacket':
                return ('sentinel',), 'sentinel'
            return (n,), n

        fw_n = {}
        ofw_n = {}

        def make(l):
            def cb_(p):
                key, kind = (key_out if l['outgoing'] else key_in)(p)
                sent = w.net.conns[-1].c2s_sent if w.net.conns else 0
                seq = w.sim.log('listener', (l['id'], key))
                st['calls'].append({
                    'seq': seq, 'lid': l['id'], 'out': l['outgoing'],
                    'early': l['early'], 'key': key, 'sent': sent,
                    'spawned': getattr(conn, 'spawned', None)})
                if kind == 'login-success' and not l['outgoing']:
                    st['in_play'] = True
                if l['outgoing'] and kind in l.get('ofw', ()):
                    n = ofw_n.get(l['id'], 0)
                    ofw_n[l['id']] = n + 1
                    conn.write_packet(sb.play.ChatPacket(
                        message='nfw-%d-%d' % (l['id'], n)), force=True)
                if not l['outgoing'] and kind in l.get('fw', ()):
                    n = fw_n.get(l['id'], 0)
                    fw_n[l['id']] = n + 1
                    conn.write_packet(sb.play.ChatPacket(
                        message='fw-%d-%d' % (l['id'], n)), force=True)
                if not l['outgoing'] and l.get('disc') == kind and \
                        not st.get('left'):
                    st['left'] = True
                    w.api('disconnect', conn.disconnect)
                if kind in l['ignore']:
                    raise IgnorePacket
            return cb_
        cbs = {}
        decos = {}
        for l in scenario['listeners']:
            if l.get('cb', l['id']) == l['id']:
                cbs[l['id']] = make(l)
            # (an alias registers the very same callable once more)
            if 'deco' in l:
                if l['deco'] not in decos:
                    decos[l['deco']] = conn.listener(
                        *[T[t] for t in l['types']], early=l['early'],
                        outgoing=l['outgoing'])
                decos[l['deco']](cbs[l['id']])
                continue
            conn.register_packet_listener(
                cbs[l.get('cb', l['id'])], *[T[t] for t in l['types']],
                early=l['early'], outgoing=l['outgoing'])
        # the harness' own probe for "in play" (registered last: an ordinary
        # listener, so it does not disturb the order under test)
        conn.register_packet_listener(
            lambda p: st.__setitem__('in_play', True),
            cb.login.LoginSuccessPacket)

        if scenario.get('slow_out_us'):
            def slow(p):
                if st['in_play']:
                    w.sleep(scenario['slow_out_us'])
            conn.register_packet_listener(slow, Packet, early=True,
                                          outgoing=True)

        def user():
            st['connect'] = w.api('connect', conn.connect)
            w.wait_until(lambda: st['in_play'] or st['errs'], 30000000)
            for mode, text in scenario['writes']:
                if st['errs']:
                    break
                w.api('write', conn.write_packet,
                      sb.play.ChatPacket(message=text), force=(mode == 'f'))
            if not st['errs']:
                w.api('write', conn.write_packet,
                      sb.play.PluginMessagePacket(channel='s', data=b''))
            st['quiet'] = w.wait_until(
                lambda: common.all_net_done(w.sim) and
                (st['exits'] or st['errs']), 60000000)
            if scenario.get('late_write') and not scenario.get('kick') and \
                    not scenario.get('early_disc') and st['quiet'] and \
                    not st['errs']:
                st['late'] = w.api('write-late', conn.write_packet,
                                   sb.play.ChatPacket(message='late'),
                                   force=True)
        w.sim.spawn(user, 'user0')

    w.run(build)
    res = common.result_from_world(w)
    check(scenario, w, st, res, ids)
    return res


def check(scenario, w, st, res, ids):
    sim = w.sim
    V = res.violations
    ref = reference(scenario)

    def ob(n=1):
        res.obligations += n
    res.summary = {'proto': scenario['proto'],
                   'listeners': scenario['listeners'],
                   'login': [s[0] for s in scenario['login']],
                   'set_compression_ignored':
                   not ref['compression_reacted'],
                   'history': [it[0] for it in scenario['history']],
                   'writes': scenario['writes'], 'end': sim.end_state}
    res.nontrivial = len(scenario['listeners']) >= 2
    res.state_sigs = [tuple(sorted((l['early'], l['outgoing'],
                                    bool(l['ignore']))
                                   for l in scenario['listeners']))[:6]]
    ob()
    if sim.end_state == 'inconclusive':
        return
    if sim.end_state != 'done':
        V.append(('C13/%s' % sim.end_state, repr(sim.end_detail)))
        return
    ob()
    kick = scenario.get('kick')
    if st['errs'] and not (kick and sim.stats.get('fault.send-error') and
                           isinstance(st['errs'][0], OSError)) and \
            not ref['ended_by_listener']:
        V.append(('C13/error-reported:%s' % type(st['errs'][0]).__name__,
                  str(st['errs'][0])[:160]))
        return
    app = w.server.apps[0]
    ob()
    if app.errors and not kick:
        V.append(('C13/server-saw-protocol-error', app.errors[:2]))
        return
    # ---- incoming: global call log equals the reference dispatcher's
    got_in = [(c['lid'], tuple(c['key'])) for c in st['calls']
              if not c['out']]
    want_in = [(lid, tuple(k)) for lid, k in ref['exp_in']]
    if kick:
        # every packet the client has taken off the stream must have been
        # dispatched, whatever happened to the client's own sends meanwhile
        consumed = app.conn.s2c_consumed
        n_cons = sum(1 for _a, end, _k in app.out_frames if end <= consumed)
        want_in = [(lid, tuple(k)) for g in ref['exp_in_groups'][:n_cons]
                   for lid, k in g]
        res.summary['kick'] = {'frames_consumed': n_cons,
                               'frames_sent': len(app.out_frames)}
        if sim.stats.get('fault.send-error'):
            res.probes['send-failed-with-packets-unread'] = 1
    if ref['ended_by_listener'] and not kick:
        n_cons = len(ref['exp_in_groups'])
    if kick or ref['ended_by_listener']:
        if st['errs'] and n_cons:
            # an exception that escapes a stage of the LAST packet (say, a
            # reaction that writes its answer at once and finds the socket
            # dead) legitimately ends that packet's dispatch there (C14)
            head = [(lid, tuple(k)) for g in ref['exp_in_groups'][:n_cons - 1]
                    for lid, k in g]
            last = [(lid, tuple(k)) for lid, k in
                    ref['exp_in_groups'][n_cons - 1]]
            tail = got_in[len(head):]
            if got_in[:len(head)] == head and tail == last[:len(tail)]:
                want_in = list(got_in)
    ob(len(want_in) + 1)
    if got_in != want_in:
        i = 0
        while i < min(len(got_in), len(want_in)) and got_in[i] == want_in[i]:
            i += 1
        g = got_in[i] if i < len(got_in) else None
        x = want_in[i] if i < len(want_in) else None
        if g is not None and x is not None and g[1] == x[1]:
            kind = 'wrong-listener-or-order'
        elif g is not None and (x is None or got_in.count(g) >
                                want_in.count(g)):
            kind = 'extra-call'
        else:
            kind = 'missing-call'
        V.append(('C13/incoming-%s' % kind,
                  {'at': i, 'got': g, 'want': x, 'n_got': len(got_in),
                   'n_want': len(want_in)}))
        return
    if ref['ended_by_listener'] and not kick:
        res.probes['early-listener-disconnected'] = 1
        ob()
        if len(st['exits']) != 1 and not st['errs']:
            V.append(('C13/exit-callback-count', len(st['exits'])))
        return
    # built-in reaction present/absent (wire effect)
    frames = {}
    for seq, state, pid, body, meta in app.frames:
        frames.setdefault((state if state != 'paused' else 'play', pid),
                          []).append((bytes(body), meta))
    later = ids['later']

    def frame_for(key):
        kind = key[0]
        if kind == 'ka':
            want = wire.i64(key[1]) if later[339] else wire.varint(key[1])
            cands = frames.get(('play', ids['sb.play.keep_alive']), [])
        elif kind == 'tp':
            want = wire.varint(key[1])
            cands = frames.get(('play', ids['sb.play.teleport_confirm']), [])
        elif kind == 'pos-echo':
            want = wire.f64(key[1])
            cands = [(b[:8], m) for b, m in
                     frames.get(('play', ids['sb.play.position']), [])]
        elif kind == 'chat':
            want = wire.string(key[1])
            cands = frames.get(('play', ids['sb.play.chat']), [])
        elif kind == 'plugin-resp':
            want = wire.varint(key[1]) + b'\x00'
            cands = frames.get(('login',
                                ids['sb.login.plugin_response']), [])
        elif kind == 'sentinel':
            return [m for b, m in frames.get(('play',
                                              ids['sb.play.plugin']), [])]
        elif kind == 'hs':
            return [m for b, m in frames.get(('handshake', 0), [])]
        elif kind == 'login-start':
            return [m for b, m in frames.get(('login',
                                              ids['sb.login.start']), [])]
        else:
            return []
        return [m for b, m in cands if b == want]

    calls_out = {}
    for c in st['calls']:
        if c['out']:
            calls_out.setdefault(tuple(c['key']), []).append(c)
    for key, (e, written, o) in ref['exp_out'].items():
        key = tuple(key)
        got = calls_out.pop(key, [])
        ge = [c['lid'] for c in got if c['early']]
        go = [c['lid'] for c in got if not c['early']]
        if kick:
            # the outgoing side is at the mercy of the closed socket; what
            # remains true: a packet whose frame reached the server whole
            # HAS been written, so its listeners have run (in the client,
            # the ordinary ones right after the write)
            if not (written and len(frame_for(key)) == 1):
                continue
            ob()
            if ge != e or go != o:
                V.append(('C13/outgoing-listener-calls:write-error-later',
                          {'packet': key, 'got_early': ge, 'want_early': e,
                           'got_ordinary': go, 'want_ordinary': o}))
                return
            continue
        ob(3)
        if key == ('chat', 'late') and not ge:
            # refused before any listener was asked: just as good
            e = []
        if ge != e or go != o:
            V.append(('C13/outgoing-listener-calls',
                      {'packet': key, 'got_early': ge, 'want_early': e,
                       'got_ordinary': go, 'want_ordinary': o}))
            return
        fs = frame_for(key)
        if written and len(fs) != 1:
            V.append(('C13/outgoing-frame-count',
                      {'packet': key, 'frames': len(fs), 'want': 1}))
            return
        if not written and fs:
            V.append(('C13/ignored-outgoing-packet-was-written',
                      {'packet': key}))
            return
        if written:
            m = fs[0]
            ob(2)
            for c in got:
                if c['early'] and c['sent'] > m['start']:
                    V.append(('C13/early-outgoing-listener-after-write',
                              {'packet': key}))
                    return
                if not c['early'] and c['sent'] < m['start'] + m['raw_len']:
                    V.append(('C13/outgoing-listener-before-write',
                              {'packet': key, 'sent': c['sent'],
                               'frame_end': m['start'] + m['raw_len']}))
                    return
            # early before ordinary in event order
            if got and any(a['seq'] > b['seq'] for a in got if a['early']
                           for b in got if not b['early']):
                V.append(('C13/outgoing-stage-order', {'packet': key}))
                return
    if kick:
        return
    ob()
    if calls_out:
        V.append(('C13/outgoing-listener-calls-for-unexpected-packet',
                  sorted(calls_out)[:3]))
        return
    # reaction sits between early and ordinary listeners (observable for the
    # position packet through `spawned` and for disconnect through shutdown)
    first_pos = next((k for k, kind in ref['incoming'] if kind == 'pos'),
                     None)
    if first_pos is not None:
        for c in st['calls']:
            if c['out'] or tuple(c['key']) != tuple(first_pos):
                continue
            ob()
            if c['early'] and c['spawned'] is True:
                V.append(('C13/reaction-before-early-listener', None))
                break
            if not c['early'] and c['spawned'] is not True:
                V.append(('C13/reaction-after-ordinary-listener', None))
                break
    shut = [seq for seq, tid, kind, d, vt in sim.history
            if kind == 'shutdown']
    if shut:
        for c in st['calls']:
            if not c['out'] and tuple(c['key']) == ('disconnect',):
                ob()
                if c['early'] and c['seq'] > shut[0]:
                    V.append(('C13/reaction-before-early-listener',
                              'disconnect'))
                    break
                if not c['early'] and c['seq'] < shut[0]:
                    V.append(('C13/reaction-after-ordinary-listener',
                              'disconnect'))
                    break
    ob()
    if len(st['exits']) != 1:
        V.append(('C13/exit-callback-count', len(st['exits'])))
    if any(l['ignore'] and l['early'] and not l['outgoing']
           for l in scenario['listeners']):
        res.probes['early-incoming-ignore-configured'] = 1
    if any(not wr for (_e, wr, _o) in ref['exp_out'].values()):
        res.probes['outgoing-write-suppressed'] = 1
    if not ref['compression_reacted']:
        res.probes['set-compression-reaction-suppressed'] = 1


def shrink_scenario(sc):
    if sc.get('kind') == 'concurrent-registration':
        if sc['n'] > 3:
            c = copy.deepcopy(sc)
            c['n'] = max(sc['n'] // 2, 2)
            yield c
        return
    if sc['net'].get('segment'):
        c = copy.deepcopy(sc)
        c['net']['segment'] = False
        yield c
    for j in range(len(sc['listeners'])):
        c = copy.deepcopy(sc)
        gone = c['listeners'][j]['id']
        del c['listeners'][j]
        # (aliases of the dropped listener's callable go with it)
        c['listeners'] = [l for l in c['listeners']
                          if l.get('cb', l['id']) != gone]
        finish(c)
        yield c
    for key in ('history', 'writes'):
        for j in range(len(sc[key])):
            if key == 'history' and len(sc[key]) == 1:
                continue
            c = copy.deepcopy(sc)
            del c[key][j]
            finish(c)
            yield c
    for j in range(len(sc['login']) - 1):
        c = copy.deepcopy(sc)
        del c['login'][j]
        finish(c)
        yield c
    for j, l in enumerate(sc['listeners']):
        if len(l['types']) > 1:
            for t in range(len(l['types'])):
                c = copy.deepcopy(sc)
                del c['listeners'][j]['types'][t]
                finish(c)
                yield c
        if l['ignore']:
            c = copy.deepcopy(sc)
            c['listeners'][j]['ignore'] = []
            finish(c)
            yield c
        if l.get('ofw'):
            c = copy.deepcopy(sc)
            c['listeners'][j]['ofw'] = []
            finish(c)
            yield c
        if l.get('fw'):
            c = copy.deepcopy(sc)
            c['listeners'][j]['fw'] = []
            finish(c)
            yield c


def evidence(tier, seed, m, d):
    return common.base_evidence(
        sys.modules[__name__], tier, seed, m, d,
        rule='seeded listener configurations (0..10 listeners over the four '
             'classes early/ordinary x incoming/outgoing, 0..3 type filters '
             'each from a class hierarchy incl. abstract super-classes and '
             'unrelated classes, random subsets raising IgnorePacket per '
             'packet kind; 15% of the incoming listeners write a packet themselves - forced - while the incoming packet is being dispatched) x packet histories in login (plugin requests) and '
             'play (keep-alive, position, chat, time, unknown) x queued and '
             'forced user writes; compared with a reference dispatcher over '
             'the global event order; evaluations = oracle obligations; '
             'non-trivial = at least two listeners; distinct = distinct run '
             'digests')

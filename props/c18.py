"""C18 - encrypted channel is AES-128-CFB8 keyed by the secret; secrets reach
the server (RSA PKCS#1 v1.5)."""
import copy
import sys

from sim.world import World
from sim.tape import Tape, Policy, make_rng
from sim.ids import ids_for
from sim import wire
from sim.server import load_keys
from . import common

ID = 'C18'
LEVEL = 'exploration'
# scenario variants and fault kinds mixed into the seeded part (reported in
# the evidence; DESIGN 14.6 says where each came from)
VARIANTS = [
    "two logins (user / handler)",
    "mixed recv()/read() stretch",
    "two Connections concurrently, with keep-alives during the writes",
    "wrapper level with EAGAIN", "zero-length recv()/read() mid-stream",
    "online-mode login with scripted session service",
    "second thread holding the write lock during login",
    "application answer queued while the encryption response goes out"
]
RUNS = {'quick': 4000, 'thorough': 150000}
WALL_CAP = {'quick': 200, 'thorough': 3300}
UUID0 = '00112233445566778899aabbccddeeff'


def scenario_for(seed, index, tier):
    rng = make_rng('scenario', ID, seed, index)
    if rng.random() < 0.3:
        return wrapper_scenario(rng)
    if rng.random() < 0.2:
        return dual_scenario(rng)
    if rng.random() < 0.1:
        return online_scenario(rng)
    sup = common.supported()
    proto = common.pick_proto(rng, sup)
    ids = ids_for(proto)
    logins = rng.choice([1, 1, 2])
    compress = rng.choice([None, None, 0, 64])
    conns = []
    all_items, all_writes = [], []
    late_answer = False
    for k in range(logins):
        enc = {'bits': rng.choice([1024, 2048]),
               'token_hex': bytes(rng.randrange(256) for _ in range(
                   rng.choice([1, 2, 4, 16, 33, 64]))).hex(),
               'server_id': '-'}
        login = []
        if compress is not None and rng.random() < 0.5:
            login.append(['compress', compress])
        if k == 0 and ids['cb.login.plugin_request'] is not None and \
                rng.random() < 0.12:
            # a plugin request right before the encryption request (the
            # server does not wait for the answer); the application answers
            # it itself, and only once the encryption response is on its
            # way out: that answer must already be encrypted
            # ... either queued from an outgoing listener on the encryption
            # response, or written at once (forced) by another thread that
            # the (slow) listener has just woken
            late_answer = rng.choice(['listener-queued', 'thread-forced'])
            login.append(['plugin', 7, 'c18:late', '0102'])
        login.append(['encrypt', enc])
        if compress is not None and login[0][0] != 'compress':
            login.append(['compress', compress])
        login.append(['success'])
        items = []
        for _ in range(rng.randint(0, 12)):
            n = rng.choice([0, 1, 15, 16, 17, 100, 1000, 4000, 4090, 4097,
                            5000, 20000])
            items.append(['plugin', 'e:%d' % k, bytes(
                rng.randrange(256) for _ in range(n)).hex()])
        if rng.random() < 0.3:
            # a stretch of the encrypted inbound stream that the application
            # reads itself, mixing socket.recv() and file_object.read()
            raw = bytes(rng.randrange(256) for _ in range(
                rng.choice([1, 16, 17, 200, 1500])))
            pos = rng.randint(0, len(items))
            items[pos:pos] = [['plugin', 'mix:%d' % k,
                               len(raw).to_bytes(4, 'big').hex()],
                              ['raw', raw.hex()]]
        writes = []
        for i in range(rng.randint(0, 10)):
            n = rng.choice([0, 1, 15, 16, 17, 31, 32, 33, 500, 3000,
                            1024, 2047, 2048, 2049, 4096, 8192])
            if n >= 1024 and compress is None and rng.random() < 0.7:
                # make the BODY send exactly n bytes long
                head = len(wire.varint(ids['sb.play.plugin'])) + \
                    len(wire.string('w:%d' % k))
                n = max(n - head, 0)
            writes.append(['plugin', 'w:%d' % k, bytes(
                (i * 29 + j * 7 + k) & 0xFF for j in range(n)).hex()])
        conns.append({'login': login, 'play': items})
        all_items.append(items)
        all_writes.append(writes)
    seg = rng.random() < 0.7
    via = 'user'
    if logins == 2 and rng.random() < 0.5:
        # the server drops the first connection; the exception handler
        # reconnects without any disconnect() in between
        via = 'handler'
        conns[0]['play'] = conns[0]['play'] + [
            ['expect', len(all_writes[0])], ['close']]
    holder = None
    if rng.random() < 0.2:
        # another thread legitimately holds the write lock for a while during
        # the login (a forced write whose early outgoing listener is slow
        # and then drops the packet): the networking thread's own forced
        # encryption response has to wait for it
        holder = {'hold_us': rng.choice([1000, 30000, 300000]),
                  'times': rng.choice([1, 3])}
    if late_answer:
        conns[0]['pipeline_plugins'] = True
    return {
        'kind': 'login', 'proto': proto, 'compress': compress, 'via': via,
        'holder': holder, 'late_answer': late_answer,
        'logins': logins, 'items': all_items, 'writes': all_writes,
        'server': {'conns': conns},
        'net': {'latency_us': rng.choice([50, 500]), 'segment': seg,
                'short_read': seg, 'max_seg': rng.choice([1, 5, 64, 2000])},
        'sched': {'granularity': rng.choice(['io', 'io', 'line']),
                  'max_steps': 600000},
        'rand_seed': rng.randrange(2**32),
    }


def dual_scenario(rng):
    """Two Connection objects in one process, each with its own encrypted
    session, writing concurrently: the two cipher streams must not
    influence each other."""
    sup = common.supported()
    proto = common.pick_proto(rng, sup)
    writes = {}
    for name in ('A', 'B'):
        w_ = []
        for i in range(rng.randint(2, 10)):
            n = rng.choice([0, 1, 15, 16, 17, 33, 500, 3000, 5000])
            w_.append([rng.choice(['q', 'f']), 'w:%s' % name, bytes(
                (i * 31 + j * 5 + ord(name)) & 0xFF
                for j in range(n)).hex()])
        writes[name] = w_
    conns = []
    for name in ('A', 'B'):
        # keep-alives arriving while the user threads write: the networking
        # thread's own answers share the cipher stream with them
        play = []
        for i in range(rng.choice([0, 1, 3, 6])):
            play.append(['ka', rng.choice([0, 1, 127, 128, 2**31 - 1,
                                           rng.randrange(2**31)])])
            play.append(['pause', rng.choice([50, 300, 2000])])
        conns.append({'login': [['encrypt', {'bits': 1024,
                                             'token_hex': 'aabbccdd',
                                             'server_id': '-'}],
                                ['success']],
                      'play': play})
    return {
        'kind': 'dual', 'proto': proto, 'writes': writes,
        'server': {'conns': conns},
        'net': {'latency_us': rng.choice([50, 500])},
        'sched': {'granularity': rng.choice(['io', 'io', 'line']),
                  'max_steps': 600000},
        'rand_seed': rng.randrange(2**32),
    }


def online_scenario(rng):
    """Online-mode login: the session service is asked to vouch for the
    secret before the encryption response goes out; its first reply may be a
    (transient or final) failure."""
    sup = common.supported()
    proto = common.pick_proto(rng, sup)
    first = rng.choice([204, 204, 503, 500, 429, 403, 502])
    writes = [['plugin', 'w:o', bytes((i * 17 + j) & 0xFF for j in range(
        rng.choice([0, 1, 16, 17, 300]))).hex()]
        for i in range(rng.randint(1, 5))]
    items = [['plugin', 'e:o', bytes(rng.randrange(256) for _ in range(
        rng.choice([0, 15, 16, 200]))).hex()]
        for _ in range(rng.randint(1, 4))]
    enc = {'bits': rng.choice([1024, 2048]),
           'token_hex': bytes(rng.randrange(256)
                              for _ in range(4)).hex(),
           'server_id': 'srv%04x' % rng.randrange(65536)}
    return {
        'kind': 'online', 'proto': proto, 'first_join_reply': first,
        'writes': writes, 'items': items,
        'server': {'conns': [{'login': [['encrypt', enc], ['success']],
                              'play': items}]},
        'net': {'latency_us': rng.choice([50, 500])},
        'sched': {'granularity': 'io', 'max_steps': 400000},
        'rand_seed': rng.randrange(2**32),
    }


def execute_online(scenario, tape):
    from sim import authsvc
    w = World(scenario, tape)
    st = {'errs': [], 'log': [], 'in_play': False}
    ids = ids_for(scenario['proto'])
    first = scenario['first_join_reply']
    body = '' if first == 204 else \
        '{"error":"ServiceUnavailable","errorMessage":"try later"}'
    svc = authsvc.Service(replies=[authsvc.Reply(first, body)],
                          default=authsvc.Reply(204, ''))

    def build(w):
        from minecraft.networking.connection import Connection
        from minecraft.networking.packets import Packet, serverbound
        from minecraft import authentication
        tok = authentication.AuthenticationToken('user@example.org',
                                                 'ACCESS-TOKEN',
                                                 'client-token')
        tok.profile.id_ = 'c' * 32
        tok.profile.name = 'Online'
        conn = Connection('sim.example', 25565, auth_token=tok,
                          allowed_versions=[scenario['proto']],
                          handle_exception=lambda e, i: (
                              [] if st.get('closing') else
                              st['errs']).append(e))

        def on_packet(p):
            if p.packet_name == 'login success':
                st['in_play'] = True
            elif st['in_play'] and \
                    type(p).__name__ == 'PluginMessagePacket':
                st['log'].append((p.channel, bytes(p.data).hex()))
        conn.register_packet_listener(on_packet, Packet, early=True)

        def user():
            r = w.api('connect', conn.connect)
            if not r.ok:
                st['errs'].append(r.exc)
                return
            w.wait_until(lambda: st['in_play'] or st['errs'], 30000000)
            if st['errs']:
                w.wait_until(lambda: common.all_net_done(w.sim), 10000000)
                return
            for wr in scenario['writes']:
                w.api('write', conn.write_packet,
                      serverbound.play.PluginMessagePacket(
                          channel=wr[1], data=bytes.fromhex(wr[2])))
            w.wait_until(lambda: st['errs'] or (
                w.server.apps and w.server.apps[0].play_frames >=
                len(scenario['writes']) and
                len(st['log']) >= len(scenario['items'])), 60000000)
            st['closing'] = True
            w.api('disconnect', conn.disconnect)
            w.wait_until(lambda: common.all_net_done(w.sim), 10000000)
        w.sim.spawn(user, 'user0')

    import minecraft.authentication as A
    w.extra = [(A, 'requests', authsvc.SimRequests(svc, w.sim))]
    w.run(build)
    res = common.result_from_world(w)
    V = res.violations
    res.summary = {'kind': 'online', 'proto': scenario['proto'],
                   'first_join_reply': first,
                   'join_requests': len(svc.requests),
                   'end': w.sim.end_state}
    res.state_sigs = [('online', first, len(svc.requests))]
    res.obligations += 2
    if w.sim.end_state == 'inconclusive':
        return res
    app = w.server.apps[0] if w.server.apps else None
    got_response = app is not None and app.enc is not None and \
        app.enc.get('secret') is not None
    if w.sim.end_state != 'done':
        V.append(('C18/online:%s' % w.sim.end_state,
                  {'detail': repr(w.sim.end_detail),
                   'server_has_secret': got_response}))
        return res
    if not got_response:
        # nothing went out under encryption; the login must not have ended
        # silently (whether one failed reply justifies giving up is C19's
        # and C10's business)
        res.obligations += 1
        if not st['errs']:
            V.append(('C18/online-login-ended-silently',
                      {'first_join_reply': first}))
        return res
    res.nontrivial = True
    res.probes['online-mode-login'] = 1
    res.obligations += 4
    # the server holds a secret: from here on both directions must be the
    # CFB8 stream keyed by exactly that secret
    if st['errs']:
        V.append(('C18/online-channel-unusable:%s'
                  % type(st['errs'][0]).__name__,
                  {'first_join_reply': first,
                   'join_requests': len(svc.requests),
                   'error': str(st['errs'][0])[:120]}))
        return res
    if app.errors:
        V.append(('C18/server-cannot-parse-client-stream', app.errors[:3]))
        return res
    if app.enc['token_back'] != app.enc['token']:
        V.append(('C18/token-not-recovered', None))
    want = [(ids['sb.play.plugin'], wire.string(x[1]) + bytes.fromhex(x[2]))
            for x in scenario['writes']]
    got = [(pid, bytes(b)) for _s, stt, pid, b, _m in app.frames
           if stt in ('play', 'paused')]
    if got != want:
        V.append(('C18/decrypted-client-stream-mismatch',
                  {'n_got': len(got), 'n_want': len(want)}))
        return res
    start = app.enc['cipher_start']
    pt = b''.join(wire.varint(len(wire.varint(pid) + b)) + wire.varint(pid)
                  + b for pid, b in got)
    if bytes(app.conn.c2s_bytes[start:]) != wire.CFB8(
            app.enc['secret'], app.enc['secret']).update(pt):
        V.append(('C18/ciphertext-not-cfb8-of-plaintext', None))
    if st['log'] != [(i[1], i[2]) for i in scenario['items']]:
        V.append(('C18/client-decrypted-stream-mismatch',
                  {'n_got': len(st['log']),
                   'n_want': len(scenario['items'])}))
    # the hash the service was asked to vouch for names this very secret
    rq = svc.requests[-1]
    key = load_keys()[[s_ for s_ in scenario['server']['conns'][0]['login']
                       if s_[0] == 'encrypt'][0][1]['bits']]
    want_hash = wire.java_hex_digest(app.enc['server_id'], app.enc['secret'],
                                     key['der'])
    res.obligations += 1
    if (rq['json'] or {}).get('serverId') != want_hash:
        V.append(('C18/join-hash-names-another-secret',
                  {'join_requests': len(svc.requests)}))
    return res


def wrapper_scenario(rng):
    secret = bytes(rng.randrange(256) for _ in range(16))
    n_in = rng.choice([0, 1, 16, 17, 200, 3000])
    plain_in = bytes(rng.randrange(256) for _ in range(n_in))
    ops = []
    remaining = n_in
    for _ in range(rng.randint(1, 14)):
        k = rng.random()
        if k < 0.45:
            n = rng.choice([0, 1, 15, 16, 17, 64, 1000, 1024, 2047, 2048,
                            2049, 4096, 4097, 8192, 16384])
            ops.append(['send', bytes(rng.randrange(256)
                                      for _ in range(n)).hex()])
        elif remaining > 0:
            n = rng.choice([1, 1, 2, 16, 100, remaining])
            n = min(n, remaining)
            remaining -= n
            ops.append([rng.choice(['recv', 'read']), n])
    cipher_in = wire.CFB8(secret, secret).update(plain_in)
    seg = rng.random() < 0.8
    n_sends = sum(1 for o in ops if o[0] == 'send')
    eagain = [rng.randrange(n_sends)] if n_sends and rng.random() < 0.25 \
        else []
    zr = rng.random()
    if zr < 0.3:
        # zero-length reads in the middle of the live stream (legal, and
        # what a caller gets to make when a length field says 0): they
        # return nothing and change nothing
        for _ in range(1 if zr < 0.2 else 3):
            ops.insert(int(zr * 1e6) % (len(ops) + 1),
                       [['recv', 'read'][int(zr * 1e7) % 2], 0])
            zr = (zr * 7.3) % 0.3
    return {
        'kind': 'wrapper', 'secret_hex': secret.hex(),
        'plain_in_hex': plain_in.hex(), 'ops': ops,
        'server': {'conns': [{'raw': True, 'send_hex': cipher_in.hex()}]},
        'net': {'latency_us': 100, 'segment': seg, 'short_read': seg,
                'max_seg': rng.choice([1, 3, 50]),
                'eagain_sends': eagain},
        'sched': {'granularity': 'io', 'max_steps': 200000},
        'rand_seed': rng.randrange(2**32),
    }


def policy(rng, scenario):
    if scenario.get('kind') == 'login' and any(
            i[0] == 'raw' for it in scenario['items'] for i in it):
        return Policy(p_sched=rng.choice([0, 0.01]),
                      p_event=rng.choice([0, 0.1]), p_io=0.5,
                      p_short=rng.choice([0.3, 0.8]),
                      p_seg=rng.choice([0.1, 0.7]), name='c18-mixed')
    if scenario.get('kind') == 'dual':
        return Policy(p_sched=rng.choice([0.02, 0.1, 0.3, 0.5]),
                      p_event=rng.choice([0, 0.1, 0.3]), name='dual')
    return Policy(p_sched=rng.choice([0, 0.01, 0.1]),
                  p_event=rng.choice([0, 0.1, 0.3]),
                  p_short=rng.choice([0.1, 0.7]),
                  p_seg=rng.choice([0.1, 0.7]), name='c18')


def execute_dual(scenario, tape):
    w = World(scenario, tape)
    st = {'errs': [], 'in_play': {'A': False, 'B': False}, 'done': 0}
    ids = ids_for(scenario['proto'])

    def build(w):
        from minecraft.networking.connection import Connection
        from minecraft.networking.packets import clientbound, serverbound

        def make(name):
            conn = Connection('sim.example', 25565, username='crypt' + name,
                              allowed_versions=[scenario['proto']],
                              handle_exception=lambda e, i: (
                                  st['errs'] if not st.get('closing' + name)
                                  else []).append((name, e)))
            conn.register_packet_listener(
                lambda p: st['in_play'].__setitem__(name, True),
                clientbound.login.LoginSuccessPacket)

            def user():
                r = w.api('connect' + name, conn.connect)
                if not r.ok:
                    st['errs'].append((name, r.exc))
                    return
                w.wait_until(lambda: all(st['in_play'].values()) or
                             st['errs'], 30000000)
                for mode, ch, hx in scenario['writes'][name]:
                    if st['errs']:
                        break
                    w.api('write' + name, conn.write_packet,
                          serverbound.play.PluginMessagePacket(
                              channel=ch, data=bytes.fromhex(hx)),
                          force=(mode == 'f'))

                def mine():
                    for a in w.server.apps:
                        if a.login_name == 'crypt' + name:
                            return a
                    return None
                w.wait_until(lambda: st['errs'] or (
                    mine() is not None and mine().play_frames >=
                    len(scenario['writes'][name]) + len(
                        [i for i in mine().beh.get('play', ())
                         if i[0] == 'ka'])), 60000000)
                st['closing' + name] = True
                w.api('disconnect' + name, conn.disconnect)
            w.sim.spawn(user, 'user' + name)
        make('A')
        make('B')

    w.run(build)
    res = common.result_from_world(w)
    V = res.violations
    res.summary = {'kind': 'dual', 'proto': scenario['proto'],
                   'writes': {k: [(m, len(h) // 2) for m, _c, h in v]
                              for k, v in scenario['writes'].items()},
                   'end': w.sim.end_state}
    res.nontrivial = True
    res.state_sigs = [('dual', min(w.sim.switches, 30))]
    res.obligations += 2
    if w.sim.end_state == 'inconclusive':
        return res
    if w.sim.end_state != 'done':
        V.append(('C18/dual:%s' % w.sim.end_state, repr(w.sim.end_detail)))
        return res
    if st['errs']:
        V.append(('C18/dual-client-error:%s'
                  % type(st['errs'][0][1]).__name__,
                  str(st['errs'][0])[:160]))
        return res
    for name in ('A', 'B'):
        app = next((a for a in w.server.apps
                    if a.login_name == 'crypt' + name), None)
        res.obligations += 3
        if app is None or not app.enc or app.enc.get('secret') is None:
            V.append(('C18/dual-secret-not-recovered', name))
            return res
        want = [(ids['sb.play.plugin'],
                 wire.string(ch) + bytes.fromhex(hx))
                for _m, ch, hx in scenario['writes'][name]]
        want += [(ids['sb.play.keep_alive'],
                  wire.i64(i[1]) if ids['later'][339] else wire.varint(i[1]))
                 for i in app.beh.get('play', ()) if i[0] == 'ka']
        got = [(pid, bytes(body)) for _s, stt, pid, body, _m in app.frames
               if stt in ('play', 'paused')]
        if app.errors or sorted(got) != sorted(want):
            V.append(('C18/dual-stream-corrupted',
                      {'connection': name, 'server_errors': app.errors[:2],
                       'n_got': len(got), 'n_want': len(want)}))
            return res
        # one continuous CFB8 stream under this connection's own secret
        start = app.enc['cipher_start']
        wire_ct = bytes(app.conn.c2s_bytes[start:])
        pt = b''.join(wire.varint(len(wire.varint(pid) + body)) +
                      wire.varint(pid) + body for pid, body in got)
        exp_ct = wire.CFB8(app.enc['secret'],
                           app.enc['secret']).update(pt)
        if wire_ct != exp_ct:
            V.append(('C18/dual-ciphertext-not-cfb8-of-plaintext', name))
            return res
    secrets = [a.enc['secret'] for a in w.server.apps if a.enc]
    if len(set(secrets)) != len(secrets):
        V.append(('C18/secret-shared-between-connections', None))
    res.probes['two-connections-concurrently'] = 1
    return res


def execute(scenario, tape):
    if scenario['kind'] == 'wrapper':
        return execute_wrapper(scenario, tape)
    if scenario['kind'] == 'dual':
        return execute_dual(scenario, tape)
    if scenario['kind'] == 'online':
        return execute_online(scenario, tape)
    w = World(scenario, tape)
    st = {'errs': [], 'logs': [[] for _ in range(scenario['logins'])],
          'login_no': -1, 'in_play': False, 'mixed': []}
    ids = ids_for(scenario['proto'])

    def build(w):
        from minecraft.networking.connection import Connection
        from minecraft.networking.packets import Packet, serverbound
        def on_exc(e, i):
            if scenario.get('via') == 'handler' and st['login_no'] == 0 \
                    and isinstance(e, EOFError):
                st['login_no'] = 1
                st['in_play'] = False
                st['handler_reconnect'] = True
                conn.connect()
                return
            (st['late'] if st.get('closing') else st['errs']).append(e)
        conn = Connection('sim.example', 25565, username='crypt',
                          allowed_versions=[scenario['proto']],
                          handle_exception=on_exc)
        st['late'] = []

        def on_packet(p):
            if p.packet_name == 'login success':
                st['in_play'] = True
                return
            if st['in_play'] and type(p).__name__ == 'PluginMessagePacket':
                ln = st['login_no']
                if p.channel.startswith('mix:'):
                    # read the announced number of bytes ourselves, through
                    # a tape-chosen mix of the two public read paths
                    n = int.from_bytes(bytes(p.data), 'big')
                    got = bytearray()
                    while len(got) < n:
                        k_ = 1 + w.sim.tape.choose(min(n - len(got), 64),
                                                   'short')
                        if w.sim.tape.choose(2, 'io'):
                            chunk = conn.socket.recv(k_)
                        else:
                            chunk = conn.file_object.read(k_)
                        if not chunk:
                            break
                        got += chunk
                    st['mixed'].append((ln, bytes(got)))
                st['logs'][ln].append((p.channel, bytes(p.data).hex()))
        conn.register_packet_listener(on_packet, Packet, early=True)
        if scenario.get('late_answer'):
            from minecraft.networking.packets import clientbound
            from minecraft.exceptions import IgnorePacket as _Ignore
            asked = []

            def on_request(p):
                asked.append(p.message_id)
                raise _Ignore

            def on_enc_response(p):
                if scenario['late_answer'] == 'thread-forced':
                    st['enc_response_on_its_way'] = True
                    w.sleep(rng_listener_us)
                    return
                for mid in asked:
                    conn.write_packet(serverbound.login.PluginResponsePacket(
                        message_id=mid, successful=False))
                del asked[:]

            rng_listener_us = 300 if scenario['rand_seed'] % 2 else 5000

            def answerer():
                w.wait_until(lambda: st.get('enc_response_on_its_way') or
                             st['errs'], 30000000)
                for mid in list(asked):
                    w.api('forced-answer', conn.write_packet,
                          serverbound.login.PluginResponsePacket(
                              message_id=mid, successful=False), force=True)
                del asked[:]
            if scenario['late_answer'] == 'thread-forced':
                w.sim.spawn(answerer, 'user2')
            conn.register_packet_listener(
                on_request, clientbound.login.PluginRequestPacket, early=True)
            conn.register_packet_listener(
                on_enc_response, serverbound.login.EncryptionResponsePacket,
                early=True, outgoing=True)
        markers = []

        def on_marker(p):
            if any(p is m for m in markers):
                w.sleep(scenario['holder']['hold_us'])
                from minecraft.exceptions import IgnorePacket
                raise IgnorePacket

        def lock_holder():
            w.wait_until(lambda: st.get('connect_returned') or st['errs'],
                         30000000)
            for _ in range(scenario['holder']['times']):
                m = serverbound.play.KeepAlivePacket(keep_alive_id=0)
                markers.append(m)
                w.api('held-write', conn.write_packet, m, force=True)
                w.sleep(200)
        if scenario.get('holder'):
            conn.register_packet_listener(on_marker, Packet, early=True,
                                          outgoing=True)
            w.sim.spawn(lock_holder, 'user1')

        def user():
            for k in range(scenario['logins']):
                handler = scenario.get('via') == 'handler'
                if k == 0 or not handler:
                    st['login_no'] = k
                    st['in_play'] = False
                    st['closing'] = False
                    r = w.api('connect', conn.connect)
                    st['connect_returned'] = True
                    if not r.ok:
                        st['errs'].append(r.exc)
                        return
                w.wait_until(lambda: (st['in_play'] and
                                      st['login_no'] == k) or st['errs'],
                             30000000)
                if st['errs']:
                    return
                for wr in scenario['writes'][k]:
                    w.api('write', conn.write_packet,
                          serverbound.play.PluginMessagePacket(
                              channel=wr[1], data=bytes.fromhex(wr[2])))

                def settled():
                    app = w.server.apps[k] if len(w.server.apps) > k \
                        else None
                    return st['errs'] or (
                        app is not None and
                        app.play_frames >= len(scenario['writes'][k]) and
                        len(st['logs'][k]) >= sum(
                            1 for x in scenario['items'][k]
                            if x[0] == 'plugin'))
                if handler and k == 0:
                    # the server closes once it has everything; the handler
                    # then reconnects by itself
                    st['first_settled'] = True
                    w.wait_until(lambda: st['errs'] or (
                        len(st['logs'][0]) >= sum(
                            1 for x in scenario['items'][0]
                            if x[0] == 'plugin') and
                        st['login_no'] == 1), 60000000)
                    continue
                w.wait_until(settled, 60000000)
                st['closing'] = True
                w.api('disconnect', conn.disconnect)
                w.wait_until(lambda: common.all_net_done(w.sim), 10000000)
        w.sim.spawn(user, 'user0')

    w.run(build)
    res = common.result_from_world(w)
    res.summary = {'kind': 'login', 'proto': scenario['proto'],
                   'logins': scenario['logins'], 'via': scenario.get('via'),
                   'compress': scenario['compress'],
                   'key_bits': [c['login'][[s[0] for s in c['login']].index(
                       'encrypt')][1]['bits']
                       for c in scenario['server']['conns']],
                   'to_client_bytes': [sum(len(i[-1]) // 2 for i in it)
                                       for it in scenario['items']],
                   'mixed_recv_read': any(i[0] == 'raw' for it in
                                          scenario['items'] for i in it),
                   'to_server_bytes': [sum(len(i[2]) // 2 for i in it)
                                       for it in scenario['writes']],
                   'end': w.sim.end_state}
    check_login(scenario, w, st, res, ids)
    return res


def check_login(scenario, w, st, res, ids):
    sim = w.sim
    V = res.violations

    def ob(n=1):
        res.obligations += n
    res.nontrivial = True
    res.state_sigs = [('login', scenario['logins'], scenario.get('via'),
                       scenario['compress'] is not None)]
    if st.get('handler_reconnect'):
        res.probes['second-login-from-exception-handler'] = 1
    ob()
    if sim.end_state == 'inconclusive':
        return
    if sim.end_state != 'done':
        V.append(('C18/%s' % sim.end_state, repr(sim.end_detail)))
        return
    ob()
    if st['errs']:
        V.append(('C18/client-error:%s' % type(st['errs'][0]).__name__,
                  str(st['errs'][0])[:160]))
        return
    if len(w.server.apps) != scenario['logins']:
        V.append(('C18/tcp-connection-count', len(w.server.apps)))
        return
    secrets = []
    for k, app in enumerate(w.server.apps):
        enc = app.enc
        ob(4)
        if app.errors:
            V.append(('C18/server-cannot-parse-client-stream',
                      app.errors[:3]))
            return
        if not enc or enc.get('secret') is None:
            V.append(('C18/secret-not-recovered', None))
            return
        if len(enc['secret']) != 16:
            V.append(('C18/secret-length', len(enc['secret'])))
        if enc['token_back'] != enc['token']:
            V.append(('C18/token-not-recovered', None))
        secrets.append(enc['secret'])
        draws = w.simos.draws
        if k < len(draws) and draws[k] == enc['secret']:
            res.probes['secret-is-kth-urandom-draw'] = \
                res.probes.get('secret-is-kth-urandom-draw', 0) + 1
        # client -> server: independent decryption gives exactly the frames
        # the user wrote (content equality, not mere decodability)
        want = [(ids['sb.play.plugin'],
                 wire.string(x[1]) + bytes.fromhex(x[2]))
                for x in scenario['writes'][k]]
        got = [(pid, bytes(body)) for _s, stt, pid, body, _m in app.frames
               if stt in ('play', 'paused')]
        ob(len(want) + 1)
        if got != want:
            V.append(('C18/decrypted-client-stream-mismatch',
                      {'n_got': len(got), 'n_want': len(want)}))
            return
        # byte equality of the ciphertext with an independent encryption of
        # the expected plaintext, as ONE continuous stream
        if scenario['compress'] is None or all(
                m.get('data_len', 0) == 0
                for _s, stt, _p, _b, m in app.frames):
            start = enc['cipher_start']
            wire_ct = bytes(app.conn.c2s_bytes[start:])
            pt = bytearray()
            thr = app.deframer.threshold
            if k == 0 and scenario.get('late_answer'):
                # the application's own plugin answer, queued while the
                # encryption response went out: first thing under the cipher
                steps = scenario['server']['conns'][0]['login']
                pre = steps[0][1] if steps[0][0] == 'compress' else None
                payload = wire.varint(ids['sb.login.plugin_response']) + \
                    wire.varint(7) + b'\x00'
                pt += (wire.varint(len(payload)) + payload) if pre is None \
                    else (wire.varint(len(payload) + 1) + b'\x00' + payload)
                res.probes['answer-queued-during-encryption-response'] = 1
            for pid, body in want:
                payload = wire.varint(pid) + body
                if thr is None:
                    pt += wire.varint(len(payload)) + payload
                else:
                    pt += wire.varint(len(payload) + 1) + b'\x00' + payload
            # frames between the encryption response and play (none expected
            # from this client) would show up as a length mismatch
            exp_ct = wire.CFB8(enc['secret'], enc['secret']).update(bytes(pt))
            ob()
            if wire_ct != exp_ct:
                V.append(('C18/ciphertext-not-cfb8-of-plaintext',
                          {'wire_len': len(wire_ct), 'want_len': len(exp_ct),
                           'first_diff': next(
                               (i for i, (a, b) in enumerate(
                                   zip(wire_ct, exp_ct)) if a != b), None)}))
                return
            res.probes['ciphertext-byte-equality-checked'] = \
                res.probes.get('ciphertext-byte-equality-checked', 0) + 1
        # server -> client: the client recovered the independently
        # encrypted stream
        want_in = [(x[1], x[2]) for x in scenario['items'][k]
                   if x[0] == 'plugin']
        raws = [bytes.fromhex(x[1]) for x in scenario['items'][k]
                if x[0] == 'raw']
        if raws:
            ob()
            got_raw = [b for ln, b in st['mixed'] if ln == k]
            if got_raw != raws:
                V.append(('C18/mixed-recv-read-stream-mismatch',
                          {'n_got': [len(b) for b in got_raw],
                           'n_want': [len(b) for b in raws],
                           'first_diff': next(
                               (i for i, (a, b) in enumerate(zip(
                                   got_raw[0] if got_raw else b'', raws[0]))
                                if a != b), None)}))
                return
            res.probes['mixed-recv-read-on-live-connection'] = 1
        ob(len(want_in) + 1)
        if st['logs'][k] != want_in:
            V.append(('C18/client-decrypted-stream-mismatch',
                      {'n_got': len(st['logs'][k]), 'n_want': len(want_in)}))
            return
    ob()
    if len(set(secrets)) != len(secrets):
        V.append(('C18/secret-reused-across-logins', None))


def execute_wrapper(scenario, tape):
    w = World(scenario, tape)
    st = {'got': bytearray(), 'sent': bytearray(), 'err': None}
    secret = bytes.fromhex(scenario['secret_hex'])

    def build(w):
        from minecraft.networking import connection, encryption

        def user():
            try:
                sockmod = connection.socket
                s = sockmod.socket(sockmod.AF_INET, sockmod.SOCK_STREAM, 0)
                s.connect(('203.0.113.1', 25565))
                f = s.makefile('rb', 0)
                cipher = encryption.create_AES_cipher(secret)
                enc, dec = cipher.encryptor(), cipher.decryptor()
                ws = encryption.EncryptedSocketWrapper(s, enc, dec)
                wf = encryption.EncryptedFileObjectWrapper(f, dec)
                for op in scenario['ops']:
                    w.sim.yield_point(60)
                    if op[0] == 'send':
                        if st.get('send_failed'):
                            continue
                        data = bytes.fromhex(op[1])
                        try:
                            ws.send(data)
                        except BlockingIOError:
                            # the send was NOT acknowledged: a sane caller
                            # stops writing to this stream - what is still
                            # to be received decrypts as before
                            st['send_failed'] = True
                            continue
                        st['sent'] += data
                    elif op[0] == 'recv':
                        st['got'] += ws.recv(op[1])
                    else:
                        st['got'] += wf.read(op[1])
                st['fileno_ok'] = ws.fileno() == s.fileno() == wf.fileno()
                ws.shutdown(sockmod.SHUT_RDWR)
                wf.close()
                ws.close()
            except Exception as e:       # reported as a violation below
                st['err'] = e
        w.sim.spawn(user, 'user0')

    w.run(build)
    res = common.result_from_world(w)
    V = res.violations
    res.summary = {'kind': 'wrapper', 'ops': [(o[0], o[1] if o[0] != 'send'
                                               else len(o[1]) // 2)
                                              for o in scenario['ops']],
                   'incoming_bytes': len(scenario['plain_in_hex']) // 2}
    res.nontrivial = True
    res.state_sigs = [('wrapper', len(scenario['ops']))]
    res.obligations += 4
    if w.sim.end_state == 'inconclusive':
        return res
    if w.sim.end_state != 'done':
        V.append(('C18/wrapper:%s' % w.sim.end_state,
                  repr(w.sim.end_detail)))
        return res
    if st['err'] is not None:
        V.append(('C18/wrapper-raised:%s' % type(st['err']).__name__,
                  str(st['err'])[:160]))
        return res
    plain_in = bytes.fromhex(scenario['plain_in_hex'])
    got = bytes(st['got'])
    if got != plain_in[:len(got)]:
        V.append(('C18/wrapper-decryption-mismatch',
                  {'n': len(got), 'first_diff': next(
                      (i for i, (a, b) in enumerate(zip(got, plain_in))
                       if a != b), None)}))
    app = w.server.apps[0]
    exp_ct = wire.CFB8(secret, secret).update(bytes(st['sent']))
    if bytes(app.conn.c2s_bytes) != exp_ct:
        V.append(('C18/wrapper-ciphertext-mismatch',
                  {'wire_len': len(app.conn.c2s_bytes),
                   'want_len': len(exp_ct)}))
    if not st.get('fileno_ok'):
        V.append(('C18/wrapper-fileno', None))
    return res


def shrink_scenario(sc):
    if sc['kind'] == 'online':
        for key in ('writes', 'items'):
            for j in range(len(sc[key])):
                if len(sc[key]) > 1:
                    c = copy.deepcopy(sc)
                    del c[key][j]
                    if key == 'items':
                        c['server']['conns'][0]['play'] = c['items']
                    yield c
        return
    if sc['kind'] == 'dual':
        for name in ('A', 'B'):
            for j in range(len(sc['writes'][name])):
                if len(sc['writes'][name]) > 1:
                    c = copy.deepcopy(sc)
                    del c['writes'][name][j]
                    yield c
        return
    if sc['kind'] == 'wrapper':
        for j in range(len(sc['ops'])):
            if sc['ops'][j][0] == 'send':
                c = copy.deepcopy(sc)
                del c['ops'][j]
                yield c
        return
    for key in ('items', 'writes'):
        for k in range(sc['logins']):
            for j in range(len(sc[key][k])):
                it = sc[key][k][j]
                if key == 'items' and it[0] == 'raw':
                    continue
                c = copy.deepcopy(sc)
                if key == 'items' and it[1].startswith('mix:'):
                    del c[key][k][j:j + 2]     # announcement + raw bytes
                else:
                    del c[key][k][j]
                if key == 'items':
                    c['server']['conns'][k]['play'] = c['items'][k]
                yield c
    if sc['logins'] > 1 and sc.get('via') != 'handler':
        c = copy.deepcopy(sc)
        c['logins'] = 1
        for key in ('items', 'writes'):
            c[key] = c[key][:1]
        c['server']['conns'] = c['server']['conns'][:1]
        yield c
    for k in ('segment', 'short_read'):
        if sc['net'].get(k):
            c = copy.deepcopy(sc)
            c['net'][k] = False
            yield c


def evidence(tier, seed, m, d):
    return common.base_evidence(
        sys.modules[__name__], tier, seed, m, d,
        rule='70%: one or two consecutive encrypted logins - the second after a user disconnect() or started by the exception handler after the server dropped the first connection - (1024/2048-bit '
             'fixture keys, verify tokens of 1..64 bytes, optional '
             'compression) followed by up to 12 server->client and 10 '
             'client->server plugin messages of 0..4000 bytes, under '
             'tape-chosen segmentation and short reads; 30%: wrapper-level '
             'runs driving EncryptedSocketWrapper.send/recv and '
             'EncryptedFileObjectWrapper.read directly with random splits of '
             'both streams; oracle = independent CFB8 (single-block AES-ECB '
             'calls), raw RSA + PKCS#1 v1.5 un-padding; evaluations = oracle '
             'obligations; every run is non-trivial; distinct = distinct run '
             'digests',
        extra_assumptions=[
            'the AES block primitive of the independent CFB8 comes from the '
            'cryptography package (ECB single-block calls), cross-checked '
            'against FIPS-197 vectors by selftest/crypto_vectors.py',
            'RSA padding randomness is not controlled; only decrypted values '
            'and ciphertext lengths enter the event log'])

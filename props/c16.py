"""C16 - connection lifecycle: one active thread, clean refusal, reusable.

Histories over {connect, status, disconnect, disconnect(immediate),
reconnect-from-listener, reconnect-from-exception-handler} issued by one or
two user threads against servers that accept, refuse, disconnect or fail,
under schedule search.  Short single-thread histories are enumerated.
"""
import copy
import itertools
import json

from sim.world import World
from sim.tape import Tape, Policy, make_rng
from sim.ids import ids_for
from sim.sched import DONE
from sim import wire
from . import common

ID = 'C16'
LEVEL = 'exploration'
# scenario variants and fault kinds mixed into the seeded part (reported in
# the evidence; DESIGN 14.6 says where each came from)
VARIANTS = [
    "enumerated histories + directed sweep",
    "hand-over stress with lingering callbacks",
    "stall / compressed / encrypted servers",
    "status result handlers that reuse the object",
    "write op (queued packet in play)",
    "option writes logged as stale actions",
    "unserialisable queued packet (write_bad)",
    "disconnect() || connect() after a rendezvous (O9)",
    "calling thread stalled at its n-th pre-emption point inside an API call"
]
RUNS = {'quick': 14000, 'thorough': 500000}
WALL_CAP = {'quick': 200, 'thorough': 3300}

OPS = ['connect', 'status', 'disc', 'disc_imm', 'wait_play', 'wait_quiet',
       'sleep']
BEHS = ['long', 'long', 'long', 'pdisc', 'pdisc', 'ldisc', 'ldisc', 'cut',
        'cut', 'rst', 'rst', 'close_accept', 'close_accept', 'stall']
FAULTY = ('cut', 'rst', 'close_accept', 'stall')

_enum_cache = {}
ENUM_ROUNDS = {'quick': 5, 'thorough': 60}


def beh_script(kind, proto, rng=None, cutk=None, compress=None,
               encrypt=False):
    st = {'mode': 'reply', 'json': json.dumps(
        {'version': {'name': 'sim', 'protocol': proto},
         'description': {'text': 'x'}})}
    b = {'kind': kind, 'status': st, 'login': [['success']], 'play': []}
    if kind == 'long':
        for i in range(8):
            b['play'] += [['pause', 400000], ['ka', 1000 + i]]
    elif kind == 'pdisc':
        b['play'] = [['pause', 3000], ['ka', 5], ['pause', 3000],
                     ['disconnect', '{"text":"server says bye"}']]
    elif kind == 'ldisc':
        b['login'] = [['disconnect', '{"text":"go away"}']]
    elif kind == 'cut':
        b['cut'] = cutk if cutk is not None else 3
        b['play'] = [['ka', 1], ['ka', 2]]
    elif kind == 'rst':
        b['play'] = [['ka', 1], ['pause', 2000], ['rst']]
    elif kind == 'close_accept':
        b['close_on_accept'] = True
    elif kind == 'stall':
        # a hung server: part of a frame, then silence; it does not even
        # answer the client's FIN by closing
        b['play'] = [['ka', 1], ['raw', '20010203']]
        b['ignore_fin'] = True
    if compress is not None and kind in ('long', 'pdisc', 'rst', 'cut'):
        b['login'] = [['compress', compress]] + b['login']
        b['compressed'] = True
        if kind == 'cut':
            b['cut'] = (b['cut'] or 0) + 40     # fail after login completed
    if encrypt and kind in ('long', 'pdisc', 'rst'):
        b['login'] = [['encrypt', {'bits': 1024, 'token_hex': '01020304',
                                   'server_id': '-'}]] + b['login']
        b['encrypted'] = True
    return b


def enumerated():
    """All single-thread histories of length <= 3 over the call alphabet,
    against a small set of server line-ups."""
    if 'e' in _enum_cache:
        return _enum_cache['e']
    calls = ['connect', 'status', 'disc', 'disc_imm']
    hist = []
    for n in (1, 2, 3):
        for h in itertools.product(calls, repeat=n):
            hist.append(list(h))
    lineups = [(['long'] * 4, []), (['pdisc', 'long', 'long', 'long'], []),
               (['long'] * 4, [0]), (['ldisc', 'long', 'long', 'long'], []),
               (['rst', 'long', 'long', 'long'], [])]
    out = []
    for h in hist:
        for behs, refuse in lineups:
            for settle in (False, True):
                out.append((h, behs, refuse, settle))
    _enum_cache['e'] = out
    return out


DIRECTED_HISTORIES = {'quick': 15, 'thorough': 840}
_directed_cache = {}


def enum_scenario(k):
    h, behs, refuse, settle = enumerated()[k]
    ops = []
    for c in h:
        ops.append(c)
        if settle and c in ('connect', 'status'):
            ops.append('wait_play')
    sc = make(757, [757], [ops], behs, refuse, 0, 0,
              make_rng('enum', ID, k), enumerated=True)
    sc['sched']['granularity'] = 'io'
    return sc


def directed_plan(tier):
    """Every placement of one forced context switch / early event at every
    lock, socket, select and API choice point of enumerated histories
    (pre-emption bound 1 at I/O granularity)."""
    if tier in _directed_cache:
        return _directed_cache[tier]
    enum = enumerated()
    n = DIRECTED_HISTORIES[tier]
    step = max(len(enum) // n, 1)
    picks = list(range(0, len(enum), step))[:n]
    cases = []
    for k in picks:
        sc = enum_scenario(k)
        tape = Tape(replay=[])
        execute(sc, tape)
        for pos in range(tape.pos):
            for v in (1, 2):
                cases.append((k, pos, v))
    _directed_cache[tier] = cases
    return cases


def total(tier, seed):
    return len(directed_plan(tier)) + RUNS[tier]


def tape_for(scenario, seed, index):
    if 'directed' in scenario:
        return Tape(replay=scenario['directed'])
    return None


def scenario_for(seed, index, tier):
    sc = _scenario_for(seed, index, tier)
    rs = make_rng('stall', ID, seed, index)
    if not sc.get('enumerated') and 'directed' not in sc and \
            rs.random() < 0.12:
        # fault: one calling thread is descheduled for a while at its n-th
        # pre-emption point inside one of its API calls (holding whatever
        # it holds at that moment)
        sc['stall'] = {'api': rs.choice(['connect', 'connect', 'disc',
                                         'disc_imm', 'status']),
                       'at': rs.randrange(0, 200),
                       'us': rs.choice([1000, 60000, 1000000]),
                       'skip': rs.choice([0, 0, 1])}
    return sc


def _scenario_for(seed, index, tier):
    plan = directed_plan(tier)
    if index < len(plan):
        k, pos, v = plan[index]
        sc = enum_scenario(k)
        sc['directed'] = [[pos, v]]
        sc['directed_of'] = k
        return sc
    index -= len(plan)
    rng = make_rng('scenario', ID, seed, index)
    sup = common.supported()
    enum = enumerated()
    if index < ENUM_ROUNDS[tier] * len(enum):
        h, behs, refuse, settle = enum[index % len(enum)]
        proto = 757
        ops = []
        for c in h:
            ops.append(c)
            if settle and c in ('connect', 'status'):
                ops.append('wait_play')
        return make(proto, [proto], [ops], behs, refuse, 0, 0, rng,
                    enumerated=True)
    proto = common.pick_proto(rng, sup)
    if rng.random() < 0.12:
        # hand-over stress: a listener/handler reconnects and lingers while
        # a user thread disconnects and reconnects around the dying thread
        via_listener = rng.random() < 0.5
        first = rng.choice(['ldisc', 'pdisc']) if via_listener else \
            rng.choice(['rst', 'cut', 'close_accept'])
        ops = ['connect', 'nap', rng.choice(['disc', 'disc_imm']), 'connect',
               rng.choice(['sleep', 'nap', 'wait_quiet']), 'connect',
               'wait_play']
        if rng.random() < 0.5:
            ops += [rng.choice(['status', 'connect', 'disc']), 'wait_quiet']
        sc = make(proto, [proto], [ops], [first] + ['long'] * 7, [],
                  1 if via_listener else 0, 0 if via_listener else 1, rng)
        sc['linger_us'] = rng.choice([300000, 1500000, 3000000])
        sc['family'] = 'handover-stress'
        return sc
    if rng.random() < 0.08:
        # a disconnect() and a connect() issued at the same moment by two
        # threads against a session that is up: whichever order they take
        # effect in, an accepted connect() is not torn down by that
        # disconnect()
        ops0 = ['connect', 'wait_play'] + \
            (['write'] * rng.choice([0, 0, 2])) + \
            ['sync', rng.choice(['disc', 'disc', 'disc_imm'])]
        ops1 = ['sync'] + (['nap'] if rng.random() < 0.2 else []) + \
            ['connect', 'wait_play']
        sc = make(proto, [proto], [ops0, ops1], ['long'] * 8, [], 0, 0, rng)
        sc['net']['send_error'] = False
        sc['family'] = 'disc-vs-connect'
        return sc
    allowed = [proto]
    if rng.random() < 0.15:
        other = rng.choice([p for p in sup if p != proto])
        allowed = [proto, other]
    nthreads = 1 if rng.random() < 0.5 else 2
    threads = []
    for t in range(nthreads):
        n = rng.randint(1, 6 if nthreads == 1 else 4)
        ops = []
        while len(ops) < n:
            ops += rng.choice([['connect'], ['connect', 'wait_play'],
                               ['connect', 'wait_play'], ['status'],
                               ['status', 'wait_quiet'], ['disc'], ['disc'],
                               ['disc_imm'], ['wait_quiet'], ['sleep'],
                               ['disc', 'connect', 'wait_play'],
                               ['disc', 'connect', 'sleep', 'connect'],
                               ['connect', 'wait_play', 'write', 'disc'],
                               ['connect', 'wait_play', 'write', 'write',
                                rng.choice(['disc', 'disc_imm', 'connect'])],
                               ['write'],
                               ['connect', 'wait_play', 'write_bad', 'nap',
                                rng.choice(['disc', 'connect', 'status'])],
                               ['status_hs', 'wait_play'],
                               ['status_hp', 'wait_play'],
                               ['disc', 'connect', 'wait_quiet', 'connect',
                                'wait_play']])
        threads.append(ops)
    behs = [rng.choice(BEHS) for _ in range(8)]
    refuse = [i for i in range(8) if rng.random() < 0.12]
    relisten = rng.choice([0, 0, 0, 1, 2])
    rehandler = rng.choice([0, 0, 0, 1, 2])
    sc = make(proto, allowed, threads, behs, refuse, relisten, rehandler,
              rng)
    # a slow listener / handler: after reconnecting it lingers (virtual
    # time) inside the callback, keeping the old networking thread alive
    sc['linger_us'] = rng.choice([0, 0, 300000, 1500000]) \
        if (relisten or rehandler) else 0
    sc['exit_helper'] = rng.random() < 0.08
    return sc


def make(proto, allowed, threads, behs, refuse, relisten, rehandler, rng,
         enumerated=False):
    conns = [beh_script(k, proto, cutk=rng.randrange(0, 40),
                        compress=(rng.choice([0, 64])
                                  if (not enumerated and rng.random() < 0.3)
                                  else None),
                        encrypt=(not enumerated and rng.random() < 0.25))
             for k in behs]
    qx = 0 if enumerated else rng.choice([0, 0, 1, 3])
    if any(c.get('compressed') or c.get('encrypted') for c in conns):
        qx = 0      # early play packets would precede the framing switch
    return {
        'proto': proto, 'allowed': allowed, 'threads': threads,
        'behs': behs, 'relisten': relisten, 'rehandler': rehandler,
        'queue_extra': qx,
        'enumerated': enumerated,
        'server': {'conns': conns},
        'net': {'refuse': refuse, 'latency_us': rng.choice([50, 200, 5000]),
                'send_error': (not enumerated) and rng.random() < 0.3,
                'eof_read_limit': 64},
        'sched': {'granularity': 'line' if enumerated or rng.random() < 0.9
                  else 'instr', 'max_steps': 300000},
        'rand_seed': rng.randrange(2**32),
    }


def policy(rng, scenario):
    if scenario.get('enumerated') and rng.random() < 0.34:
        return Policy(name='no-preempt')
    p = rng.choice([0.0, 0.002, 0.01, 0.05, 0.2])
    pe = rng.choice([0.0, 0.02, 0.1, 0.3])
    if scenario['sched']['granularity'] == 'instr':
        p /= 4
    if rng.random() < 0.25:
        d = rng.choice([1, 2, 3, 4])
        return Policy(p_event=pe, p_io=0.3, pct_depth=d,
                      pct_len=rng.choice([200, 1000, 3000]),
                      name='pct(d=%d,pe=%s)' % (d, pe))
    return Policy(p_sched=p, p_event=pe, p_io=0.3,
                  name='rw(p=%s,pe=%s)' % (p, pe))


class Rec(object):
    """What the harness observed about one API call."""

    def __init__(self, op, by, net_thread, pending=False):
        self.op, self.by, self.net_thread = op, by, net_thread
        self.pending = pending
        self.r = None
        self.live_net_at_inv = None
        self.extra = None


def execute(scenario, tape):
    w = World(scenario, tape)
    st = {'recs': [], 'done_threads': 0, 'errs': [], 'exits': 0,
          'budget': {'listen': scenario['relisten'],
                     'handler': scenario['rehandler']}}

    def build(w):
        from minecraft.networking.connection import (Connection,
                                                     PlayingReactor)
        from minecraft.networking.packets import clientbound, serverbound
        from minecraft.exceptions import IgnorePacket
        sim = w.sim

        def live_net():
            return sum(1 for t in sim.threads
                       if t.kind == 'net' and t.state != DONE)

        def call(op, by, fn, *a, **k):
            rec = Rec(op, by, sim.current.kind == 'net',
                      getattr(conn, 'new_networking_thread', None)
                      is not None)
            rec.live_net_at_inv = live_net()
            rec.pending_inv = rec.pending
            rec.tid = sim.current.tid
            st['recs'].append(rec)
            rec.r = w.api(op, fn, *a, **k)
            rec.pending = rec.pending or getattr(
                conn, 'new_networking_thread', None) is not None
            return rec

        def on_exception(e, info):
            st['errs'].append((sim.seq, type(e).__name__, str(e)[:80],
                               sim.current.tid))
            if st['budget']['handler'] > 0:
                st['budget']['handler'] -= 1
                rec = call('connect', 'handler', conn.connect)
                if not rec.r.ok:
                    raise rec.r.exc
                if scenario.get('linger_us'):
                    w.sleep(scenario['linger_us'])

        def on_exit():
            st['exits'] += 1
            if scenario.get('exit_helper'):
                # the callback hands the clean-up to another thread (whose
                # clean-up includes an idempotent disconnect()) and waits
                # for it - which must not be what keeps that thread waiting
                st['exit_req'] = st.get('exit_req', 0) + 1
                want = st['exit_req']
                # (a hard wait: if the helper can never get through, the run
                # ends as the deadlock it would be in real life)
                sim.block(lambda: st.get('exit_ack', 0) >= want or
                          st.get('helper_gone'), None,
                          reason='exit-callback-waits-for-helper', poll=True,
                          patient=False)

        def exit_helper():
            while True:
                w.wait_until(lambda: st.get('exit_req', 0) >
                             st.get('exit_ack', 0) or
                             st.get('final_done'), budget=False)
                if st.get('exit_req', 0) > st.get('exit_ack', 0):
                    call('disc', 'helper', conn.disconnect)
                    st['exit_ack'] = st['exit_req']
                    continue
                st['helper_gone'] = True
                return

        conn = Connection('sim.example', 25565, username='cycle',
                          allowed_versions=scenario['allowed'],
                          initial_version=scenario['allowed'][0],
                          handle_exception=on_exception, handle_exit=on_exit)
        w.conn = conn

        def on_login_disconnect(pkt):
            if st['budget']['listen'] > 0:
                st['budget']['listen'] -= 1
                rec = call('disc', 'listener', conn.disconnect)
                if not rec.r.ok:
                    raise rec.r.exc
                rec = call('connect', 'listener', conn.connect)
                if not rec.r.ok:
                    raise rec.r.exc
                if scenario.get('linger_us'):
                    w.sleep(scenario['linger_us'])
                raise IgnorePacket

        def on_play_disconnect(pkt):
            if st['budget']['listen'] > 0:
                st['budget']['listen'] -= 1
                rec = call('connect', 'listener', conn.connect)
                if not rec.r.ok:
                    raise rec.r.exc
                if scenario.get('linger_us'):
                    w.sleep(scenario['linger_us'])
        if scenario['relisten']:
            conn.register_packet_listener(
                on_login_disconnect, clientbound.login.DisconnectPacket,
                early=True)
            conn.register_packet_listener(
                on_play_disconnect, clientbound.play.DisconnectPacket)

        def in_play(first_conn):
            for app in w.server.apps[first_conn:]:
                if app.reached_play and not app.fin_seen and \
                        app.conn.s2c_consumed >= app.success_end:
                    return True
            return False

        def quiet():
            return live_net() == 0

        probe_ids = [5000]

        def ka_body(app, v):
            return wire.i64(v) if app.ids['later'][339] else wire.varint(v)

        def probe(app):
            """Server sends a fresh keep-alive on app; wait for the answer.
            Condition-based (soft time-out only fires when nothing can run).
            """
            probe_ids[0] += 1
            v = probe_ids[0]
            inv = sim.log('call', 'probe')
            sim.after(0, lambda: w.server.inject(app, ['ka', v]), 'probe')
            kid = app.ids['sb.play.keep_alive']
            want = ka_body(app, v)

            def answered():
                return any(pid == kid and bytes(body) == want
                           for _s, stt, pid, body, _m in app.frames
                           if stt in ('play', 'paused'))
            w.wait_until(lambda: answered() or app.fin_seen or quiet(),
                         budget=True)
            res = 'answered' if answered() else \
                ('fin' if app.fin_seen else
                 ('quiet' if quiet() else 'timeout'))
            ret = sim.log('ret', ('probe', res))
            return {'probe': res, 'app': app.conn.index, 'pinv': inv,
                    'pret': ret}

        def live_long_app():
            for app in reversed(w.server.apps):
                if app.reached_play and not app.fin_seen and \
                        app.beh.get('kind') == 'long':
                    return app
            return None

        def after_refusal(rec):
            if rec.r.ok or type(rec.r.exc).__name__ != 'InvalidState':
                return
            if not w.net.conns:
                return
            tcp = w.net.conns[-1]       # the session the refusal protects

            def ready():
                a = tcp.app
                return a is not None and (a.reached_play or a.fin_seen
                                          or a.state == 'dead')
            w.wait_until(lambda: ready() or quiet(), budget=True)
            app = tcp.app
            if app is not None and app.reached_play and not app.fin_seen \
                    and app.beh.get('kind') == 'long':
                rec.extra = probe(app)

        def user(k):
            def run():
                last_conn_base = len(w.net.conns)
                for op in scenario['threads'][k]:
                    if op == 'connect':
                        last_conn_base = len(w.net.conns)
                        rec = call('connect', k, conn.connect)
                        after_refusal(rec)
                        if rec.r.ok and scenario['queue_extra']:
                            for i in range(scenario['queue_extra']):
                                pkt = serverbound.play.ChatPacket(
                                    message='m%d' % i)
                                call('write', k, conn.write_packet, pkt)
                    elif op == 'status':
                        last_conn_base = len(w.net.conns)
                        rec = call('status', k, conn.status,
                                   handle_status=False, handle_ping=False)
                        after_refusal(rec)
                    elif op in ('status_hs', 'status_hp'):
                        # a status query whose result handler reuses the
                        # connection object (the library has closed the
                        # status connection before it calls the handler)
                        last_conn_base = len(w.net.conns)

                        def reuse(_value, _k=k):
                            rec2 = call('connect', 'status-handler',
                                        conn.connect)
                            if not rec2.r.ok:
                                raise rec2.r.exc
                        if op == 'status_hs':
                            rec = call('status', k, conn.status,
                                       handle_status=reuse,
                                       handle_ping=False)
                        else:
                            rec = call('status', k, conn.status,
                                       handle_status=False,
                                       handle_ping=reuse)
                        after_refusal(rec)
                    elif op == 'write':
                        # a queued packet (only meaningful in play): what
                        # follows finds the outgoing queue non-empty
                        if isinstance(conn.reactor, PlayingReactor) and \
                                in_play(last_conn_base):
                            pkt = serverbound.play.ChatPacket(message='w')
                            call('write', k, conn.write_packet, pkt)
                    elif op == 'write_bad':
                        # a queued packet that cannot be serialised (its
                        # field was never set): the networking thread fails
                        # in its WRITE phase; the object must stay usable
                        app_ = live_long_app()
                        if isinstance(conn.reactor, PlayingReactor) and \
                                in_play(last_conn_base) and \
                                len(scenario['threads']) == 1 and \
                                app_ is not None and \
                                app_.conn.index >= last_conn_base:
                            call('write', k, conn.write_packet,
                                 serverbound.play.ChatPacket()).bad = True
                            # (nobody calls disconnect() while that packet
                            # is still queued - a flush that trips over the
                            # caller's own broken packet is the caller's
                            # problem - so wait for the thread to hit it)
                            w.wait_until(lambda: any(
                                e[1] == 'AttributeError' and
                                'message' in e[2] for e in st['errs'])
                                or quiet(), budget=True)
                    elif op == 'disc':
                        call('disc', k, conn.disconnect)
                    elif op == 'disc_imm':
                        call('disc_imm', k, conn.disconnect, immediate=True)
                    elif op == 'wait_play':
                        base = last_conn_base
                        rec = Rec('wait_play', k, False)
                        rec.tid = sim.current.tid
                        st['recs'].append(rec)
                        inv = sim.log('call', 'wait_play')
                        prev = st['recs'][-2] if len(st['recs']) > 1 \
                            else None
                        if prev is not None and prev.op == 'connect' and \
                                prev.tid == rec.tid and prev.r is not None \
                                and prev.r.ok:
                            # something that ought to happen: be patient
                            ok = w.wait_until(
                                lambda: in_play(base) or quiet(),
                                budget=True)
                        else:
                            # just pacing (no oracle looks at the result)
                            ok = w.wait_for(
                                lambda: in_play(base) or quiet(), 2000000)
                        res = 'play' if in_play(base) else \
                            ('quiet' if quiet() else 'timeout')
                        ret = sim.log('ret', ('wait_play', res))
                        rec.extra = {'res': res, 'inv': inv, 'ret': ret,
                                     'base': base}
                        if res == 'play':
                            app = live_long_app()
                            if app is not None and app.conn.index >= base:
                                rec.extra.update(probe(app))
                                rec.extra['ret'] = rec.extra['pret']
                    elif op == 'wait_quiet':
                        inv = sim.log('call', 'wait_quiet')
                        w.wait_for(quiet, 6000000)
                        sim.log('ret', ('wait_quiet', quiet()))
                    elif op == 'sleep':
                        w.sleep(700000)
                    elif op == 'nap':
                        w.sleep(100000)
                    elif op == 'sync':
                        # rendezvous of all threads that have one: what
                        # follows in them starts at the same moment
                        st['rv'] = st.get('rv', 0) + 1
                        want = sum(1 for t in scenario['threads']
                                   if 'sync' in t)
                        w.wait_until(lambda: st['rv'] >= want, budget=True)
                st['done_threads'] += 1
            return run

        n = len(scenario['threads'])
        for k in range(n):
            sim.spawn(user(k), 'user%d' % k)
        if scenario.get('exit_helper'):
            sim.spawn(exit_helper, 'helper')

        def coord():
            w.wait_until(lambda: st['done_threads'] == n, budget=False)
            # a session started from a listener / exception handler gets the
            # chance to come up before everything is torn down
            def callback_connects():
                return [r for r in st['recs'] if r.op == 'connect' and
                        r.by in ('handler', 'listener', 'status-handler')
                        and (r.r is None or r.r.ok)]
            for _ in range(8):
                w.wait_until(lambda: all(r.r is not None
                                         for r in callback_connects()),
                             budget=True)
                cb = callback_connects()
                if not (cb and w.net.conns):
                    break
                tcp = w.net.conns[-1]
                w.wait_until(lambda: quiet() or (
                    tcp.app is not None and (tcp.app.reached_play or
                                             tcp.app.fin_seen or
                                             tcp.app.state == 'dead')),
                    budget=True)
                # the callback that saw this session end may have started
                # yet another one meanwhile
                if len(callback_connects()) == len(cb) and \
                        w.net.conns[-1] is tcp:
                    break
            st['final_from'] = sim.seq
            rounds = 0
            for rounds in range(6):
                call('disc', 'coord', conn.disconnect)
                if w.wait_until(quiet, budget=15000):
                    # a handler/listener may still reconnect: settle
                    w.sleep(300000)
                    if quiet():
                        break
            st['final_quiet'] = quiet()
            st['final_rounds'] = rounds + 1
            st['final_done'] = True
        sim.spawn(coord, 'coord')

    from minecraft.networking.connection import Connection as _C

    def logging_setattr(self, name, value):
        object.__setattr__(self, name, value)
        if name in ('reactor', 'socket', 'file_object') and \
                not w.sim.aborting:
            w.sim.log('attr-write', name)
    from minecraft.networking.connection import _ConnectionOptions as _O

    def logging_setattr_opt(self, name, value):
        object.__setattr__(self, name, value)
        if name.startswith('compression') and not w.sim.aborting:
            w.sim.log('attr-write', 'options.' + name)
    w.extra = [(_C, '__setattr__', logging_setattr),
               (_O, '__setattr__', logging_setattr_opt)]
    w.run(build)
    res = common.result_from_world(w)
    check(scenario, w, st, res)
    return res


def stale_actions(sim, calls, st):
    """O7: once another thread has successfully started a new session, a
    networking thread of an older session must not touch the connection's
    shared state or the newer session's socket.  Returns a violation or
    None."""
    hist = sim.history
    nets = [t for t in sim.threads if t.kind == 'net']
    for o in calls:
        if o.op not in ('connect', 'status') or o.r is None or not o.r.ok \
                or o.net_thread or o.r.ret is None:
            continue
        conns = [d[0] for _s, k, d in o.attempts if k == 'connect']
        first_conn = min(conns) if conns else None
        for t in nets:
            if not (t.started_seq < o.r.inv and
                    (t.ended_seq is None or t.ended_seq > o.r.inv)):
                # (still alive when the call began: it may act - and end -
                # while the new session is being set up)
                continue
            own_writes = {}
            for seq, tid, kind, d, vt in hist:
                if tid == o.tid and kind == 'attr-write' and \
                        o.r.inv < seq < o.r.ret:
                    own_writes.setdefault(d, seq)
            for seq, tid, kind, d, vt in hist:
                if tid != t.tid or seq <= o.r.inv:
                    continue
                if seq <= o.r.ret:
                    # while the new session is being set up: overwriting
                    # what connect()/status() has just installed is the same
                    # stale action, merely earlier
                    if kind == 'attr-write' and d in own_writes and \
                            seq > own_writes[d]:
                        failed = any(e[3] == tid and e[0] < seq
                                     for e in st['errs'])
                        return ('C16/stale-thread-action:%s' % (
                            'exception-path' if failed else 'reaction'),
                            {'thread': t.name, 'what': 'wrote ' + d +
                             ' during the new session\'s set-up',
                             'seq': seq, 'new_session_call': o.op,
                             'new_session_returned': o.r.ret})
                    continue
                what = None
                if kind == 'attr-write':
                    what = 'wrote ' + d
                elif kind in ('send', 'shutdown') and first_conn is not None:
                    idx = d[0] if isinstance(d, tuple) else d
                    if idx >= first_conn:
                        what = kind + ' on the newer connection'
                if what is None:
                    continue
                # only while the newer session is still meant to be alive
                if any(c.op in ('disc', 'disc_imm') and c.r is not None and
                       o.r.ret < c.r.inv < seq for c in calls):
                    break
                # a thread may legitimately act inside an API call it makes
                # itself (listener/handler reconnect)
                own = any(c.tid == tid and c.r is not None and
                          c.r.inv < seq < (c.r.ret or 10**12)
                          and c.op in ('connect', 'status') for c in calls)
                if own:
                    continue
                failed = any(e[3] == tid and e[0] < seq for e in st['errs'])
                path = 'exception-path' if failed else 'reaction'
                return ('C16/stale-thread-action:%s' % path,
                        {'thread': t.name, 'what': what, 'seq': seq,
                         'new_session_call': o.op,
                         'new_session_returned': o.r.ret})
    return None


def check(scenario, w, st, res):
    sim = w.sim
    V = res.violations
    recs = st['recs']

    def ob():
        res.obligations += 1
    res.summary = {'threads': scenario['threads'], 'behs': scenario['behs'],
                   'refuse': scenario['net']['refuse'],
                   'relisten': scenario['relisten'],
                   'rehandler': scenario['rehandler'],
                   'allowed': scenario['allowed'], 'end': sim.end_state,
                   'calls': [(r.op, r.by, 'ok' if r.r is None or r.r.ok
                              else type(r.r.exc).__name__) for r in recs]}
    res.nontrivial = len(recs) > 1
    res.state_sigs = [tuple((r.op, 'ok' if r.r is None or r.r.ok
                             else type(r.r.exc).__name__) for r in recs)[:8]]
    hist = sim.history
    calls = [r for r in recs if r.r is not None]
    # which TCP attempts each call made (events by the calling thread inside
    # the call window)
    for r in calls:
        r.attempts = [(seq, kind, d) for seq, tid, kind, d, vt in hist
                      if tid == r.tid and r.r.inv < seq <
                      (r.r.ret or 10**12) and
                      kind in ('connect', 'connect-refused')]
    # ---- O7 first: everything downstream of a stale action is a symptom
    ob()
    sa = stale_actions(sim, calls, st)
    if sa is not None:
        V[:] = [sa]
        return
    ob()
    if sim.end_state == 'inconclusive':
        return
    if sim.end_state != 'done':
        if sim.fail_fast:
            V[:] = [('C16/' + s, d) for s, d in V]
        else:
            V.append(('C16/%s' % sim.end_state, repr(sim.end_detail)))
        return
    for t in sim.threads:
        if t.kind == 'user' and t.exc is not None:
            raise common.HarnessError('user thread raised %r' % (t.exc,))
    # ---- O1: what calls may raise
    for r in calls:
        ob()
        if r.r.ok:
            continue
        name = type(r.r.exc).__name__
        if r.op in ('disc', 'disc_imm'):
            V.append(('C16/disconnect-raised:%s' % name, str(r.r.exc)[:100]))
        elif r.op in ('connect', 'status'):
            if name == 'InvalidState':
                continue
            if name == 'ConnectionRefusedError' and any(
                    k == 'connect-refused' for _s, k, _d in r.attempts):
                res.probes['connect-refused-propagated'] = 1
                continue
            V.append(('C16/%s-raised:%s' % (r.op, name),
                      str(r.r.exc)[:100]))
        elif r.op == 'write':
            pass
    if V:
        return
    # ---- helper: net threads done at a given seq
    nets = [t for t in sim.threads if t.kind == 'net']

    def live_at(seq):
        return [t for t in nets if t.started_seq <= seq and
                (t.ended_seq is None or t.ended_seq > seq)]
    # ---- O5: one I/O thread at a time
    spans = {}
    for seq, tid, kind, d, vt in hist:
        if kind in ('read', 'read-eof', 'read-rst', 'send', 'select-ready',
                    'select-timeout', 'select-poll-empty'):
            t = sim.threads[tid] if 0 <= tid < len(sim.threads) else None
            if t is not None and t.kind == 'net':
                a = spans.get(tid)
                spans[tid] = (seq, seq) if a is None else (a[0], seq)
    ob()
    sp = sorted(spans.items(), key=lambda kv: kv[1][0])
    for (ta, a), (tb, b) in zip(sp, sp[1:]):
        if b[0] < a[1]:
            V.append(('C16/two-io-threads', {'a': a, 'b': b}))
            break
    # ---- O6: disconnect() sticks: without a later connect()/status() call
    # nobody opens a new TCP connection after disconnect() has returned
    opens = [r for r in calls if r.op in ('connect', 'status')]
    for d in calls:
        if d.op not in ('disc', 'disc_imm') or not d.r.ok:
            continue
        if any(o.r.inv < d.r.ret and (o.r.ret or 10**12) > d.r.inv
               and not (not o.r.ok and
                        type(o.r.exc).__name__ == 'InvalidState')
               for o in opens):
            continue          # concurrent with an effective opening call
        # window end: the next opening call that was not refused (a refused
        # call changes nothing itself)
        nxt = min([o.r.inv for o in opens if o.r.inv > d.r.ret and not (
            not o.r.ok and type(o.r.exc).__name__ == 'InvalidState')]
            or [10**12])
        # linearisation point: the call's last visible effect, else return
        lin = d.r.ret
        eff = [seq for seq, tid, kind, dd, vt in hist
               if tid == d.tid and d.r.inv < seq < d.r.ret and
               kind in ('shutdown', 'close', 'file-close', 'attr-write')]
        if eff:
            lin = eff[-1]
        ob()
        for seq, tid, kind, dd, vt in hist:
            if lin < seq < nxt and kind in ('connect',
                                            'connect-refused'):
                t = sim.threads[tid] if 0 <= tid < len(sim.threads) else None
                inside = any(o.tid == tid and o.r.inv < seq <
                             (o.r.ret or 10**12) for o in opens)
                who = 'internal-negotiation' if t is not None and \
                    t.kind == 'net' and not inside else 'other'
                V.append(('C16/tcp-connect-after-disconnect:%s' % who,
                          {'disconnect_returned': d.r.ret, 'tcp_connect': seq,
                           'by': str(d.by), 'allowed': scenario['allowed']}))
                return
    # ---- O3: refusal windows
    mutating = [r for r in calls if r.op in ('connect', 'status', 'disc',
                                             'disc_imm')]
    single = len(scenario['threads']) == 1
    for i, r in enumerate(calls):
        if r.op not in ('connect', 'status'):
            continue
        refused = (not r.r.ok) and type(r.r.exc).__name__ == 'InvalidState'
        # must-not-refuse: nothing alive at invocation, called by a user
        if not r.net_thread and not live_at(r.r.inv):
            concurrent = [o for o in mutating if o is not r and
                          o.r.inv < (r.r.ret or 10**12) and
                          (o.r.ret or 10**12) > r.r.inv]
            ob()
            if refused and not concurrent:
                V.append(('C16/idle-connection-refused',
                          {'op': r.op, 'call_index': i}))
        # sequential rule: previous mutating call (globally) was a
        # disconnect that returned; at most one thread still winding down
        prev = [o for o in mutating if (o.r.ret or 10**12) < r.r.inv]
        overl = [o for o in mutating if o is not r and o not in prev and
                 o.r.inv < (r.r.ret or 10**12)]
        if prev and not overl:
            last = max(prev, key=lambda o: o.r.ret)
            opened_since = [o for o in mutating if o is not r and
                            o.op in ('connect', 'status') and
                            (o.r.ret or 10**12) > last.r.inv and not (
                                not o.r.ok and type(o.r.exc).__name__ ==
                                'InvalidState')]
            if last.op in ('disc', 'disc_imm') and last.r.ok and \
                    not opened_since and \
                    len(live_at(r.r.inv)) <= 1 and \
                    (not r.net_thread or last.tid == r.tid):
                ob()
                sub = 'handover-pending' if r.pending else 'other'
                if refused and sub == 'other' and \
                        len(scenario['allowed']) > 1 and any(
                            last.r.inv < seq < r.r.inv and
                            kind in ('connect', 'connect-refused') and
                            0 <= tid < len(sim.threads) and
                            sim.threads[tid].kind == 'net'
                            for seq, tid, kind, dd, vt in hist):
                    # the version negotiation opened its login connection
                    # while that disconnect() was in progress: the
                    # disconnect() found nothing to close and was lost
                    # (known finding 2 seen from the caller's side)
                    sub = 'internal-negotiation'
                if refused:
                    V.append(('C16/refused-after-disconnect:%s' % sub,
                              {'op': r.op, 'call_index': i,
                               'by': str(r.by)}))
        # must-refuse: a clean long session is definitely active
        act = definitely_active(scenario, w, calls, r, live_at)
        if act is not None:
            ob()
            res.probes['refusal-required'] = \
                res.probes.get('refusal-required', 0) + 1
            if not refused:
                V.append(('C16/active-connection-not-refused',
                          {'op': r.op, 'call_index': i}))
            else:
                ob()
                if r.attempts:
                    V.append(('C16/refused-call-opened-tcp', r.attempts[:2]))
                if r.extra and 'probe' in r.extra:
                    hi = r.extra['pret']
                    others = [o for o in mutating if o is not r and
                              o.r.inv < hi and (o.r.ret or 10**12) > r.r.inv]
                    if not others:
                        ob()
                        res.probes['undisturbed-probe'] = \
                            res.probes.get('undisturbed-probe', 0) + 1
                        doomed = any(
                            e[1] == 'AttributeError' and 'message' in e[2]
                            for e in st['errs'])
                        if doomed:
                            # the session under the probe was brought down by
                            # the unserialisable packet this history queued
                            # (write_bad), not by the refused call
                            res.probes['probe-on-doomed-session'] = 1
                        elif r.extra['probe'] != 'answered':
                            V.append(('C16/active-session-disturbed',
                                      {'after': 'refused ' + r.op,
                                       'probe': r.extra['probe'],
                                       'errs': st['errs'][-2:]}))
    # ---- O4: an accepted connect() is usable
    for i, r in enumerate(recs):
        if r.op != 'wait_play' or i == 0:
            continue
        c = recs[i - 1]
        if c.op != 'connect' or c.r is None or not c.r.ok or c.tid != r.tid:
            continue
        lo, hi = c.r.inv, r.extra['ret']
        others = [o for o in calls if o is not c and
                  o.r.inv < hi and (o.r.ret or 10**12) > lo and
                  o.op != 'write']
        if others:
            continue
        apps = w.server.apps[r.extra['base']:]
        new = [a for a in apps if a.conn.index >= r.extra['base']]
        behs = [a.beh.get('kind') for a in new]
        if not new or any(b in FAULTY for b in behs) or \
                any(b == 'ldisc' for b in behs):
            continue
        if any(kind == 'connect-refused' and lo < seq < hi
               for seq, tid, kind, d, vt in hist):
            continue
        ob()
        res.probes['usable-required'] = res.probes.get('usable-required',
                                                       0) + 1
        reached = any(a.reached_play for a in new)
        bad = None
        if r.extra['res'] != 'play' and not (
                reached and any(b == 'pdisc' for b in behs)):
            bad = {'wait': r.extra['res']}
        elif 'probe' in r.extra and r.extra['probe'] != 'answered':
            bad = {'wait': 'play', 'probe': r.extra['probe']}
        if bad is not None:
            # who closed the new connection?
            who = 'other'
            idxs = set(a.conn.index for a in new)
            for seq, tid, kind, d, vt in hist:
                if kind == 'shutdown' and d in idxs and lo < seq < hi:
                    t = sim.threads[tid] if 0 <= tid < len(sim.threads) \
                        else None
                    if t is not None and t.kind == 'net' and \
                            t.started_seq < lo:
                        failed = any(e[3] == tid and e[0] < seq
                                     for e in st['errs'])
                        who = 'old-thread-exception-path' if failed \
                            else 'old-thread-reaction'
                        if len(scenario['allowed']) > 1 and any(
                                e[3] == tid and e[1] == 'InvalidState'
                                for e in st['errs']):
                            # the old thread was in the version negotiation:
                            # its status connection ended, this connect()
                            # was accepted, and the old thread's own
                            # internal connect() was refused in turn
                            who = 'old-thread-internal-negotiation'
                    break
            bad.update(behs=behs, errs=st['errs'][-2:],
                       handshakes=[a.handshake for a in new])
            V.append(('C16/accepted-connect-unusable:%s' % who, bad))
    # ---- O3c: a connect() made from a status/ping result handler comes
    # after the library has closed the status connection: not refused
    for r in calls:
        if r.op != 'connect' or r.by != 'status-handler':
            continue
        parent = [o for o in calls if o.op == 'status' and o.r.ok and
                  o.r.ret < r.r.inv]
        if not parent:
            continue
        par = max(parent, key=lambda o: o.r.ret)
        others = [o for o in mutating if o is not r and o is not par and
                  o.r.inv < (r.r.ret or 10**12) and
                  (o.r.ret or 10**12) > par.r.inv]
        if others or live_at(par.r.inv):
            continue
        ob()
        res.probes['status-handler-reuse-checked'] = \
            res.probes.get('status-handler-reuse-checked', 0) + 1
        if not r.r.ok and type(r.r.exc).__name__ == 'InvalidState':
            V.append(('C16/refused-in-status-result-handler',
                      {'status_call_by': str(par.by)}))
            break
    # ---- O9: a connect() made from inside an exception handler - the
    # session has ended with that error - is not refused as 'existing
    # connection' when the failing thread is the only networking thread
    # alive, no hand-over is pending and nobody else is calling
    for r in calls:
        if r.op != 'connect' or r.by != 'handler' or not r.net_thread:
            continue
        if getattr(r, 'pending_inv', True) or r.live_net_at_inv != 1:
            continue
        conc = [o for o in mutating if o is not r and
                o.r.inv < (r.r.ret or 10**12) and
                (o.r.ret or 10**12) > r.r.inv]
        if conc:
            continue
        # ... and the newest session opened before this call is one that was
        # already up when this thread reported its error (so it is this
        # thread's own, or one that has ended since): a status()/connect()
        # that another thread slipped in after the error is a live session
        # and a legitimate reason to refuse
        mine = [e for e in st['errs'] if e[3] == r.tid and e[0] < r.r.inv]
        opened = [o for o in mutating if o is not r and
                  o.op in ('connect', 'status') and o.r.inv < r.r.inv and
                  not (not o.r.ok and
                       type(o.r.exc).__name__ == 'InvalidState')]
        if not mine or not opened:
            continue
        newest = max(opened, key=lambda o: o.r.inv)
        if newest.r.ret is None or newest.r.ret > mine[-1][0]:
            continue
        ob()
        res.probes['handler-reconnect-admission-checked'] = \
            res.probes.get('handler-reconnect-admission-checked', 0) + 1
        if not r.r.ok and type(r.r.exc).__name__ == 'InvalidState':
            V.append(('C16/refused-in-exception-handler',
                      {'live_net': r.live_net_at_inv,
                       'client_errors': st['errs'][-2:]}))
    # ---- O8: a connect() made from inside a listener / exception handler
    # and answered by a healthy server yields a usable session
    final_from = st.get('final_from', 10**12)
    for r in calls:
        if r.op != 'connect' or r.by not in ('handler', 'listener', 'status-handler') or \
                not r.r.ok:
            continue
        if r.r.inv >= final_from:
            # made while the harness was already tearing everything down:
            # the next teardown disconnect ends it before it can come up
            continue
        att = [d for _s, k_, d in r.attempts if k_ == 'connect']
        if len(att) != 1 or any(k_ == 'connect-refused'
                                for _s, k_, _d in r.attempts):
            continue
        idx = att[0][0]
        if idx >= len(w.server.apps) or len(scenario['allowed']) != 1:
            continue
        app = w.server.apps[idx]
        if app.beh.get('kind') not in ('long', 'pdisc'):
            continue
        others = [o for o in mutating if o is not r and o.r.inv > r.r.inv
                  and o.r.inv < final_from and not (
                      o.op in ('connect', 'status') and not o.r.ok and
                      type(o.r.exc).__name__ == 'InvalidState')]
        conc = [o for o in mutating if o is not r and o.r.inv < r.r.inv and
                (o.r.ret or 10**12) > r.r.inv]
        if others or conc:
            continue
        ob()
        res.probes['callback-reconnect-checked'] = \
            res.probes.get('callback-reconnect-checked', 0) + 1
        if not app.reached_play:
            V.append(('C16/reconnect-from-callback-unusable',
                      {'by': r.by, 'conn': idx,
                       'server_errors': app.errors[:2],
                       'client_errors': st['errs'][-2:]}))
            break
    # ---- O9: disconnect() || connect() on a session that is up.  An
    # accepted connect() means the disconnect() took effect first, so the
    # new session is not that disconnect()'s to tear down
    if scenario.get('family') == 'disc-vs-connect':
        t0 = [r for r in recs if r.by == 0]
        t1 = [r for r in recs if r.by == 1]
        c0 = next((r for r in t0 if r.op == 'connect'), None)
        wp0 = next((r for r in t0 if r.op == 'wait_play'), None)
        d = next((r for r in t0 if r.op in ('disc', 'disc_imm')), None)
        c1 = next((r for r in t1 if r.op == 'connect'), None)
        wp1 = next((r for r in t1 if r.op == 'wait_play'), None)
        if None not in (c0, wp0, d, c1, wp1) and c0.r is not None and \
                c0.r.ok and wp0.extra and wp0.extra['res'] == 'play' and \
                d.r is not None and d.r.ok and c1.r is not None and \
                wp1.extra:
            ob()
            res.probes['disconnect-vs-connect-judged'] = 1
            if c1.r.ok:
                res.probes['connect-won-against-disconnect'] = 1
                apps = [a for a in w.server.apps
                        if a.conn.index >= wp1.extra['base']]
                if wp1.extra['res'] != 'play' and \
                        not any(a.reached_play for a in apps):
                    V.append(('C16/accepted-connect-torn-down-by-concurrent-'
                              'disconnect',
                              {'op': c1.op, 'wait': wp1.extra['res'],
                               'disc': d.op,
                               'tcp_connections': len(w.net.conns)}))
            elif type(c1.r.exc).__name__ != 'InvalidState':
                V.append(('C16/connect-raised:%s'
                          % type(c1.r.exc).__name__, str(c1.r.exc)[:100]))
    # ---- O2: disconnect leads to termination
    ob()
    if not st.get('final_quiet'):
        V.append(('C16/networking-thread-survives-disconnect',
                  {'rounds': st.get('final_rounds'),
                   'alive': [t.name for t in nets if t.state != DONE]}))
    if sim.stats.get('join-wait'):
        res.probes['successor-waited-in-join'] = 1


def definitely_active(scenario, w, calls, r, live_at):
    """Return the connect() call whose session is definitely active at the
    invocation of r (and stays so until r returns), else None."""
    if len(scenario['allowed']) != 1:
        return None
    if r.by == 'handler':
        # made from an exception handler: that session has just failed
        # (possibly for a reason of the client's own, e.g. an unserialisable
        # queued packet, with the server none the wiser)
        return None
    prev = [o for o in calls if o.op in ('connect', 'status', 'disc',
                                         'disc_imm')
            and o is not r and o.r.inv < (r.r.ret or 10**12)]
    if not prev:
        return None
    # the latest mutating call that began before r returned must be a
    # successful connect() that returned before r was invoked ...
    last = max(prev, key=lambda o: o.r.inv)
    # ignore refused attempts in between (they change nothing)
    cands = sorted(prev, key=lambda o: o.r.inv, reverse=True)
    c = None
    for o in cands:
        if o.op in ('connect', 'status') and not o.r.ok and \
                type(o.r.exc).__name__ == 'InvalidState':
            continue
        c = o
        break
    if c is None or c.op != 'connect' or not c.r.ok or \
            c.r.ret is None or c.r.ret > r.r.inv:
        return None
    # every other effective mutating call finished before c began
    for o in prev:
        if o is c:
            continue
        if o.op in ('connect', 'status') and not o.r.ok and \
                type(o.r.exc).__name__ == 'InvalidState':
            continue
        if o.r.ret is None or o.r.ret > c.r.inv:
            return None
    if c.net_thread:
        return None
    # ... whose session this history did not bring down itself by queueing an
    # unserialisable packet (write_bad)
    if any(getattr(o, 'bad', False) and o.r is not None and
           o.r.inv > c.r.inv and o.r.inv < (r.r.ret or 10**12)
           for o in calls):
        return None
    # ... made when nothing was alive (no old thread can interfere) ...
    if live_at(c.r.inv):
        return None
    # ... to a fault-free long-lived server
    att = [d for _s, k, d in c.attempts if k == 'connect']
    if len(att) != 1 or any(k == 'connect-refused'
                            for _s, k, _d in c.attempts):
        return None
    idx = att[0][0]
    if idx >= len(w.server.apps):
        return None
    app = w.server.apps[idx]
    if app.beh.get('kind') != 'long':
        return None
    return c


def shrink_scenario(sc):
    # drop a thread
    if len(sc['threads']) > 1:
        for k in range(len(sc['threads'])):
            c = copy.deepcopy(sc)
            del c['threads'][k]
            yield c
    # drop ops
    for k, ops in enumerate(sc['threads']):
        for j in range(len(ops)):
            if len(ops) > 1 or len(sc['threads']) > 1:
                c = copy.deepcopy(sc)
                del c['threads'][k][j]
                if not c['threads'][k]:
                    del c['threads'][k]
                if c['threads']:
                    yield c
    for key in ('relisten', 'rehandler', 'queue_extra', 'linger_us'):
        if sc.get(key):
            c = copy.deepcopy(sc)
            c[key] = 0
            yield c
    if sc['net'].get('refuse'):
        c = copy.deepcopy(sc)
        c['net']['refuse'] = []
        yield c
    if sc['net'].get('send_error'):
        c = copy.deepcopy(sc)
        c['net']['send_error'] = False
        yield c
    # simplify servers
    for j, b in enumerate(sc['behs']):
        if b != 'long':
            c = copy.deepcopy(sc)
            c['behs'][j] = 'long'
            c['server']['conns'][j] = beh_script('long', sc['proto'])
            yield c
    if len(sc['allowed']) > 1:
        c = copy.deepcopy(sc)
        c['allowed'] = c['allowed'][:1]
        yield c
    if sc['sched']['granularity'] != 'line':
        c = copy.deepcopy(sc)
        c['sched']['granularity'] = 'line'
        yield c


def evidence(tier, seed, m, d):
    import sys
    ev = common.base_evidence(
        sys.modules[__name__], tier, seed, m, d,
        rule='first, every placement of one forced context switch or early event at every lock/socket/select/API choice point of 30 (quick) / all 840 (thorough) enumerated histories; then %d x (5 quick / 60 thorough schedules) cases enumerate every single-thread history of '
             'length <= 3 over {connect, status, disconnect, '
             'disconnect(immediate)} x 5 server line-ups x settle/no-settle; '
             'the rest are seeded histories (1-2 user threads, <= 6 ops, '
             'reconnecting listeners/handlers, servers that accept, refuse, '
             'disconnect, cut, reset) under seeded schedules; evaluations = '
             'oracle obligations; non-trivial = more than one API call made; '
             'distinct = distinct run digests' % len(enumerated()))
    ev['coverage']['enumerated_histories'] = len(enumerated())
    return ev

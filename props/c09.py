"""C09 - status queries and version negotiation pick the right version/error."""
import copy
import io
import json
import sys

from sim.world import World
from sim.tape import Tape, Policy, make_rng
from sim.ids import ids_for
from sim import wire
from . import common

ID = 'C09'
LEVEL = 'exploration'
# scenario variants and fault kinds mixed into the seeded part (reported in
# the evidence; DESIGN 14.6 says where each came from)
VARIANTS = [
    "earlier compressed session on the same object (single allowed version)",
    "earlier plain status query with handlers of its own (answered, or failed with an error on record)",
    "TCP connect of the login connection refused",
    "token profile changed after construction",
    "server closes right after reply/pong; send-error fault for early closers",
    "known-but-unsupported version names",
    "wall clock stepped backwards/forwards between two readings",
    "calling thread stalled at its n-th pre-emption point inside status()",
    "status reply arriving 3 s .. 2 min late",
    "allowed versions naming one version more than once (same value, two names, name and number)"
]
RUNS = {'quick': 6000, 'thorough': 250000}
WALL_CAP = {'quick': 200, 'thorough': 3300}

HOSTS = ['sim.example', 'mc.example.org', '10.1.2.3', 'h']
PORTS = [25565, 1, 65535, 4711]


def tables():
    import minecraft
    sup = list(minecraft.SUPPORTED_PROTOCOL_VERSIONS)
    names = dict(minecraft.SUPPORTED_MINECRAFT_VERSIONS)      # name -> proto
    known = dict(minecraft.KNOWN_MINECRAFT_VERSIONS)
    idx = dict(minecraft.PROTOCOL_VERSION_INDICES)
    return sup, names, known, idx


def scenario_for(seed, index, tier):
    sc = _scenario_for(seed, index, tier)
    rng = make_rng('clock', ID, seed, index)
    if rng.random() < 0.3:
        # clock fault: the wall clock is stepped (NTP, administrator) just
        # before one of the first readings anybody takes of it; monotonic
        # clocks are unaffected.  Reported latencies stay non-negative.
        sc['wall_jumps'] = [[rng.randrange(3),
                             rng.choice([-5000000, -3600 * 10**6, -20000,
                                         5000000])]]
    rl = make_rng('slow-reply', ID, seed, index)
    st0 = sc['server']['conns'][1 if sc.get('prior') else 0].get('status')
    if st0 and st0.get('mode') == 'reply' and not sc.get('twin') and \
            rl.random() < 0.15:
        # a slow server: the status reply comes seconds late (still a reply:
        # no fallback to the default version, no giving up)
        st0['reply_delay_us'] = rl.choice([3000000, 6000000, 31000000,
                                           120000000])
        sc['slow_reply'] = True
    rs = make_rng('stall', ID, seed, index)
    if sc['call'] == 'status' and not sc.get('twin') and rs.random() < 0.5:
        # fault: the calling thread is descheduled for a while somewhere
        # inside status() - the query may be answered meanwhile; it is still
        # the caller's handlers that get the result
        sc['stall'] = {'api': 'status', 'at': rs.randrange(0, 120),
                       'us': rs.choice([30000, 200000]),
                       'skip': 1 if (sc.get('prior') or {}).get('kind') ==
                       'status' else 0}
        sc['sched']['granularity'] = 'line'
    if (sc.get('prior') or {}).get('kind') == 'status' and \
            make_rng('prior-fails', ID, seed, index).random() < 0.4:
        # ... and that earlier query may have FAILED (the server closed
        # without answering: an error was reported and recorded): the call
        # under test still runs its course, exit callback included
        sc['prior']['fails'] = True
        sc['server']['conns'][0] = {'status': {'mode': 'close_on_request'}}
    if isinstance(sc['allowed'], list) and rng.random() < 0.25:
        # the same version given more than once: again as it is, by another
        # of its names, or by name and by number - still the same SET of
        # versions (a singleton stays a singleton: no status query)
        sup_all, names, known, idx = tables()
        try:
            resolve(sc['allowed'], names, sup_all)
        except ValueError:
            return sc
        byproto = {}
        for n, p in names.items():
            byproto.setdefault(p, []).append(n)
        for _ in range(rng.choice([1, 1, 2])):
            v = rng.choice(sc['allowed'])
            p = names[v] if isinstance(v, str) else v
            alt = [v, p] + sorted(byproto.get(p, []))
            sc['allowed'].insert(rng.randrange(len(sc['allowed']) + 1),
                                 rng.choice(alt))
        sc['allowed_has_duplicates'] = True
    return sc


def _scenario_for(seed, index, tier):
    rng = make_rng('scenario', ID, seed, index)
    sup_all, names, known, idx = tables()
    usable = common.supported()
    byproto = {}
    for n, p in names.items():
        byproto.setdefault(p, []).append(n)
    # allowed set
    kind = rng.choice(['all', 'single', 'pair', 'prefix', 'few', 'invalid'])
    if tier == 'thorough' and index < 2 * len(sup_all):
        kind = 'all' if index % 2 else 'few'
    if kind == 'all':
        allowed = None
    elif kind == 'single':
        allowed = [common.pick_proto(rng, usable)]
    elif kind == 'pair':
        allowed = rng.sample(usable, 2)
    elif kind == 'prefix':
        k = rng.randrange(2, len(usable))
        allowed = usable[:k] if rng.random() < 0.5 else usable[k:]
        if len(allowed) < 2:
            allowed = usable[:3]
    elif kind == 'few':
        allowed = rng.sample(usable, rng.randint(2, 6))
    else:
        unsup_names = sorted(n for n in known if n not in names)
        bad = rng.choice([0, 3, 48, 99999, -1, 'nonsense', 2.5, None] +
                         rng.sample(unsup_names, min(6, len(unsup_names))))
        allowed = rng.sample(usable, 2) + [bad]
        rng.shuffle(allowed)
    if allowed is not None and kind != 'invalid':
        # give some versions by name
        allowed = [rng.choice(sorted(byproto[p])) if p in byproto and
                   rng.random() < 0.4 else p for p in allowed]
    # default version
    r = rng.random()
    if r < 0.4:
        initial = None
    elif r < 0.9:
        p = rng.choice(usable)
        initial = rng.choice(sorted(byproto[p])) if p in byproto and \
            rng.random() < 0.4 else p
    else:
        unsup_names = sorted(n for n in known if n not in names)
        initial = rng.choice([0, 'bogus', 12345678] +
                             rng.sample(unsup_names,
                                        min(4, len(unsup_names))))
    call = rng.choice(['connect', 'connect', 'connect', 'status'])
    auth = rng.random() < 0.3
    # the token may be authenticated / refreshed (its profile changes in
    # place) after the Connection was built around it
    auth_late = auth and rng.random() < 0.4
    # a session resumed with refresh() has tokens and a profile but no
    # username of its own
    auth_no_username = auth and rng.random() < 0.3
    # what the server says on a status connection
    allowed_protos = None
    try:
        allowed_protos = resolve(allowed, names, sup_all)
    except ValueError:
        pass
    b = rng.random()
    if tier == 'thorough' and index < 2 * len(sup_all):
        sp = sup_all[(index // 2) % len(sup_all)]
        status = {'mode': 'reply', 'protocol': sp}
    elif b < 0.45:
        pool = allowed_protos or usable
        k = rng.random()
        if k < 0.5:
            sp = rng.choice(sorted(pool))
        elif k < 0.7:
            sp = rng.choice(sup_all)
        elif k < 0.85:
            unsup = [p for p in known.values() if p not in sup_all]
            sp = rng.choice(unsup) if unsup else 3
        else:
            sp = rng.choice([-1, 0, 6, 99999, 2**31 - 1, 1 << 40,
                             (1 << 30) | 9999])
        status = {'mode': 'reply', 'protocol': sp}
    elif b < 0.55:
        status = {'mode': 'reply', 'shape': 'no-version'}
    elif b < 0.65:
        status = {'mode': 'reply', 'shape': 'no-protocol'}
    elif b < 0.75:
        status = {'mode': 'reply', 'shape': 'empty'}
    elif b < 0.87:
        status = {'mode': 'close_on_accept'}
    else:
        status = {'mode': 'close_on_request'}
    if status['mode'] == 'reply':
        if 'protocol' in status:
            ver = {'protocol': status['protocol']}
            if rng.random() < 0.7:
                ver['name'] = rng.choice(['1.x-sim', 'Paper 1.16.5',
                                          'weird "name"'])
                pool_ = sorted(q for q in (allowed_protos or usable)
                               if q in byproto and
                               q != status['protocol'])
                if pool_ and rng.random() < 0.4:
                    # a proxy that reports one version by name and another
                    # by number: the number is what counts
                    ver['name'] = sorted(byproto[rng.choice(pool_)])[0]
            obj = {'version': ver, 'description': {'text': 'hi'},
                   'players': {'max': 20, 'online': 1}}
        elif status['shape'] == 'no-version':
            obj = {'description': {'text': 'hi'}}
        elif status['shape'] == 'no-protocol':
            obj = {'version': {'name': 'nameless'}, 'description': 'x'}
        else:
            obj = {}
        status['json'] = json.dumps(obj)
    status['pong'] = True
    status['pong_delay_us'] = rng.choice([0, 0, 1000, 250000, 3000000])
    hs = rng.choice(['custom', 'custom', 'default', 'off'])
    hp = rng.choice(['custom', 'custom', 'default', 'off'])
    if call == 'status' and status['mode'] == 'reply' and rng.random() < 0.4:
        # like a real server, it closes its side as soon as it has sent its
        # last packet of the exchange
        if hp == 'off':
            status['close_after_reply'] = True
        else:
            status['close_after_pong'] = True
    seg = rng.random() < 0.3
    single = call == 'connect' and allowed_protos is not None and \
        len(allowed_protos) == 1
    sc = {
        'allowed': allowed, 'initial': initial, 'call': call, 'auth': auth,
        'auth_late': auth_late, 'auth_no_username': auth_no_username,
        'host': rng.choice(HOSTS), 'port': rng.choice(PORTS),
        'handle_status': hs, 'handle_ping': hp, 'status': status,
        'server': {'conns': [
            {'status': status,
             'login': [['success']],
             'play': [['ka', 3], ['disconnect', '{"text":"done"}']]},
            {'status': {'mode': 'reply', 'json': '{}'},
             'login': [['success']],
             'play': [['ka', 4], ['disconnect', '{"text":"done"}']]}]},
        'net': {'latency_us': rng.choice([50, 500, 20000]),
                'segment': seg, 'short_read': seg,
                # writing to a server that has already closed may fail
                'send_error': status['mode'] in ('close_on_accept',
                                                 'close_on_request')},
        'sched': {'granularity': rng.choice(['io', 'io', 'line']),
                  'max_steps': 300000},
        'rand_seed': rng.randrange(2**32),
    }
    if single:
        # no status connection is expected: the first TCP connection is the
        # login connection
        sc['server']['conns'] = sc['server']['conns'][1:]
    if call == 'status' and status['mode'] == 'reply' and \
            rng.random() < 0.15:
        # two threads ask the same object for a status query at the same
        # time: one of them is refused (unless they happen not to overlap),
        # and the refused call disturbs nothing
        sc['twin'] = True
        sc['handle_status'] = 'custom'
        twin_conn = copy.deepcopy(sc['server']['conns'][0])
        sc['server']['conns'] = [sc['server']['conns'][0], twin_conn]
        sc['sched']['granularity'] = 'line'
        return sc
    if call == 'connect' and not single and rng.random() < 0.1:
        # the TCP connect for the login connection (the second one) is
        # refused: that is an error to report, not a reason to try the
        # default version
        sc['refuse_login'] = True
        sc['net']['refuse'] = [1]
    if allowed_protos is not None and len(allowed_protos) == 1 and \
            rng.random() < 0.5:
        # the same object has already been used for a whole session (with
        # compression switched on by that server) before the call under
        # test.  Only with a single allowed version: what an earlier
        # negotiation leaves behind for the next one is not part of C09.
        thr = rng.choice([0, 1, 64, 256])
        first = copy.deepcopy(sc['server']['conns'][-1])
        first['login'] = [['compress', thr], ['success']]
        first.pop('status', None)
        sc['prior'] = {'threshold': thr, 'conns': 1}
        sc['server']['conns'] = [first] + sc['server']['conns']
    elif not sc.get('refuse_login') and rng.random() < 0.15:
        # ... or for a plain status query with handlers of its own (a status
        # query leaves the allowed versions alone): nothing of that query -
        # its handlers in particular - belongs to the call under test
        first = {'status': {'mode': 'reply', 'pong': True,
                            'json': json.dumps({
                                'version': {'protocol': 5, 'name': 'earlier'},
                                'description': {'text': 'earlier query'}})}}
        sc['prior'] = {'kind': 'status', 'conns': 1,
                       'ping': rng.random() < 0.5}
        sc['server']['conns'] = [first] + sc['server']['conns']
    return sc


def policy(rng, scenario):
    return Policy(p_sched=rng.choice([0, 0.02, 0.2]),
                  p_event=rng.choice([0, 0.1, 0.4]), p_short=0.3, p_seg=0.3,
                  p_io=rng.choice([0, 0.5, 1.0]), name='c09')


def resolve(versions, names, sup):
    """Reference resolution of an allowed-versions argument."""
    if versions is None:
        return set(sup)
    out = set()
    for v in versions:
        if isinstance(v, str):
            p = names.get(v)
        elif isinstance(v, int) and not isinstance(v, bool):
            p = v
        else:
            p = None
        if p not in sup:
            raise ValueError(v)
        out.add(p)
    return out


def reference(scenario):
    """Expected outcome, computed independently of Connection's code."""
    sup, names, known, idx = tables()
    exp = {}
    try:
        allowed = resolve(scenario['allowed'], names, sup)
        latest = max(allowed, key=lambda p: idx[p])
        if scenario['initial'] is None:
            default = latest
        else:
            default = list(resolve([scenario['initial']], names, sup))[0]
    except ValueError:
        return {'construct': 'ValueError'}
    exp['construct'] = 'ok'
    exp['allowed'] = allowed
    st = scenario['status']
    if scenario['call'] == 'status':
        exp['conns'] = [{'proto': latest, 'next': 1}]
        exp['login_proto'] = None
        exp['error'] = None
        return exp
    if len(allowed) == 1:
        exp['conns'] = [{'proto': latest, 'next': 2}]
        exp['login_proto'] = latest
        exp['error'] = None
        exp['status_query'] = False
        return exp
    exp['status_query'] = True
    conns = [{'proto': latest, 'next': 1}]
    err = None
    login = None
    if st['mode'] != 'reply':
        login = default
    else:
        obj = json.loads(st['json'])
        if obj == {}:
            err = ('OSError', 'Invalid server status')
        elif 'version' not in obj or 'protocol' not in obj['version']:
            login = default
        else:
            p = obj['version']['protocol']
            if p in allowed:
                login = p
            else:
                err = ('VersionMismatch', p, obj['version'].get('name'),
                       p in sup)
    if login is not None and scenario.get('refuse_login'):
        login = None
        err = ('ConnectionRefused',)
    if login is not None:
        conns.append({'proto': login, 'next': 2})
    exp['conns'] = conns
    exp['login_proto'] = login
    exp['error'] = err
    return exp


def execute(scenario, tape):
    w = World(scenario, tape)
    st = {'errs': [], 'exits': [], 'status_calls': [], 'ping_calls': [],
          'construct': None}

    def build(w):
        from minecraft.networking.connection import Connection
        from minecraft import authentication
        kw = {}
        if scenario['allowed'] is not None:
            kw['allowed_versions'] = scenario['allowed']
        if scenario['initial'] is not None:
            kw['initial_version'] = scenario['initial']
        if scenario['auth']:
            tok = authentication.AuthenticationToken(
                None if scenario.get('auth_no_username')
                else 'user@example.org', 'access', 'client')
            tok.profile.id_ = 'a' * 32
            tok.profile.name = 'ProfileName'
            kw['auth_token'] = tok
        else:
            kw['username'] = 'OfflineName'
        try:
            conn = Connection(
                scenario['host'], scenario['port'],
                handle_exception=lambda e, i: st['errs'].append(e),
                handle_exit=lambda: st['exits'].append(w.sim.seq), **kw)
        except ValueError as e:
            st['construct'] = 'ValueError'
            return
        except Exception as e:
            st['construct'] = type(e).__name__
            return
        st['construct'] = 'ok'
        w.conn = conn
        if scenario.get('auth_late'):
            tok.profile.id_ = 'd' * 32
            tok.profile.name = 'LateProfile'

        def user():
            if scenario.get('prior'):
                if scenario['prior'].get('kind') == 'status':
                    st['prior_status_calls'] = []
                    st['prior_ping_calls'] = []
                    st['prior_call'] = w.api(
                        'status', conn.status,
                        handle_status=st['prior_status_calls'].append,
                        handle_ping=(st['prior_ping_calls'].append
                                     if scenario['prior']['ping'] else False))
                else:
                    st['prior_call'] = w.api('connect', conn.connect)
                w.wait_until(
                    lambda: common.all_net_done(w.sim) and
                    (st['exits'] or st['errs']), 60000000)
                st['prior'] = {'errs': list(st['errs']),
                               'exits': list(st['exits'])}
                del st['errs'][:]
                del st['exits'][:]
            if scenario.get('twin'):
                st['twin_status'] = [[], []]
                st['twin_ping'] = [[], []]
                st['twin_calls'] = [None, None]

                def one(i):
                    def run():
                        hp = {'custom': st['twin_ping'][i].append,
                              'default': None,
                              'off': False}[scenario['handle_ping']]
                        st['twin_calls'][i] = w.api(
                            'status', conn.status,
                            handle_status=st['twin_status'][i].append,
                            handle_ping=hp)
                    return run
                w.sim.spawn(one(1), 'user1')
                one(0)()
                w.wait_until(lambda: st['twin_calls'][1] is not None,
                             60000000)
                st['call'] = st['twin_calls'][0]
                st['quiet'] = w.wait_until(
                    lambda: common.all_net_done(w.sim), 60000000)
                return
            if scenario['call'] == 'status':
                hs = {'custom': st['status_calls'].append, 'default': None,
                      'off': False}[scenario['handle_status']]
                hp = {'custom': st['ping_calls'].append, 'default': None,
                      'off': False}[scenario['handle_ping']]
                st['call'] = w.api('status', conn.status, handle_status=hs,
                                   handle_ping=hp)
            else:
                st['call'] = w.api('connect', conn.connect)
            st['quiet'] = w.wait_until(
                lambda: common.all_net_done(w.sim) and
                (st['exits'] or st['errs']), 60000000)
        w.sim.spawn(user, 'user0')

    out = io.StringIO()
    old = sys.stdout
    sys.stdout = out
    try:
        w.run(build)
    finally:
        sys.stdout = old
    st['stdout'] = out.getvalue()
    res = common.result_from_world(w)
    check(scenario, w, st, res)
    return res


def check(scenario, w, st, res):
    sim = w.sim
    V = res.violations
    exp = reference(scenario)

    def ob(n=1):
        res.obligations += n
    res.summary = {'allowed': scenario['allowed'] if scenario['allowed'] is
                   None or len(scenario['allowed']) < 8 else
                   '%d versions' % len(scenario['allowed']),
                   'initial': scenario['initial'], 'call': scenario['call'],
                   'status': {k: v for k, v in scenario['status'].items()
                              if k in ('mode', 'protocol', 'shape')},
                   'expected': {k: (sorted(v)[:3] if isinstance(v, set)
                                    else v) for k, v in exp.items()
                                if k != 'allowed'},
                   'end': sim.end_state}
    res.state_sigs = [(scenario['call'], exp.get('construct'),
                       str(exp.get('error') and exp['error'][0]),
                       exp.get('login_proto') is not None,
                       scenario['status']['mode'],
                       scenario['status'].get('shape'),
                       bool(scenario.get('prior')))]
    res.nontrivial = exp['construct'] == 'ok'
    ob()
    if st['construct'] != exp['construct']:
        V.append(('C09/construction:%s-expected-%s'
                  % (st['construct'], exp['construct']),
                  {'allowed': repr(scenario['allowed'])[:100],
                   'initial': scenario['initial']}))
        return
    if exp['construct'] != 'ok':
        return
    ob()
    if sim.end_state == 'inconclusive':
        return
    if sim.end_state != 'done':
        V.append(('C09/%s' % sim.end_state, repr(sim.end_detail)))
        return
    if scenario.get('twin'):
        check_twin(scenario, w, st, res)
        return
    if not st['call'].ok:
        V.append(('C09/call-raised:%s' % type(st['call'].exc).__name__,
                  str(st['call'].exc)[:100]))
        return
    apps = w.server.apps
    if scenario.get('prior'):
        ob(3)
        n = scenario['prior']['conns']
        pr = st.get('prior') or {}
        if scenario['prior'].get('kind') == 'status' and \
                scenario['prior'].get('fails'):
            if not st['prior_call'].ok or len(apps) < n:
                V.append(('C09/earlier-query-failed',
                          {'call': repr(st['prior_call'].exc)[:80]}))
                return
            res.probes['call-after-failed-status-query'] = 1
        elif scenario['prior'].get('kind') == 'status':
            ob(2)
            if not st['prior_call'].ok or pr.get('errs') or \
                    len(pr.get('exits', ())) != 1 or len(apps) < n:
                V.append(('C09/earlier-query-failed',
                          {'errs': [repr(e)[:80]
                                    for e in pr.get('errs', ())]}))
                return
            if len(st['prior_status_calls']) != 1 or \
                    len(st['prior_ping_calls']) > 1:
                V.append(('C09/earlier-query-s-handlers-called-again',
                          {'status_handler_calls':
                           len(st['prior_status_calls']),
                           'ping_handler_calls':
                           len(st['prior_ping_calls'])}))
                return
            res.probes['call-after-earlier-status-query'] = 1
        elif not st['prior_call'].ok or pr.get('errs') or \
                len(pr.get('exits', ())) != 1 or len(apps) < n or \
                not apps[n - 1].reached_play:
            V.append(('C09/earlier-session-failed',
                      {'errs': [repr(e)[:80] for e in pr.get('errs', ())],
                       'conns': len(apps)}))
            return
        apps = apps[n:]
        if scenario['prior'].get('kind') != 'status':
            res.probes['call-after-compressed-session'] = 1
    base = len(w.server.apps) - len(apps)
    # number of TCP connections and their handshakes
    ob()
    if len(apps) != len(exp['conns']):
        V.append(('C09/tcp-connection-count',
                  {'got': len(apps), 'want': len(exp['conns']),
                   'handshakes': [a.handshake for a in apps],
                   'errs': [repr(e)[:80] for e in st['errs'][:2]]}))
        return
    for app, ec in zip(apps, exp['conns']):
        ob(4)
        hs = app.handshake
        if hs is None:
            if sim.stats.get('fault.send-error') and \
                    scenario['status']['mode'] in ('close_on_accept',
                                                   'close_on_request') \
                    and app.conn.index == base:
                continue     # the send of the handshake itself failed
            V.append(('C09/no-handshake', app.conn.index))
            return
        if hs['protocol'] != ec['proto']:
            V.append(('C09/handshake-protocol',
                      {'conn': app.conn.index, 'got': hs['protocol'],
                       'want': ec['proto']}))
        if hs['host'] != scenario['host'] or hs['port'] != scenario['port']:
            V.append(('C09/handshake-address', hs))
        if hs['next_state'] != ec['next']:
            V.append(('C09/handshake-next-state',
                      {'conn': app.conn.index, 'got': hs['next_state'],
                       'want': ec['next']}))
        errors = list(app.errors)
        if sim.stats.get('fault.send-error'):
            # a frame whose second send() failed on the closed connection is
            # cut short by the fault, not by the client
            errors = [e for e in errors if not e.startswith(
                'client stream ended inside a frame')]
        if errors:
            V.append(('C09/malformed-client-frames', errors[:2]))
        if ec['next'] == 1:
            ob()
            if app.status_requests != 1 and not (
                    app.status_requests == 0 and
                    scenario['status']['mode'] == 'close_on_accept'):
                V.append(('C09/status-request-count', app.status_requests))
        else:
            ob(2)
            want_name = ('LateProfile' if scenario.get('auth_late') else
                         'ProfileName') if scenario['auth'] else 'OfflineName'
            if app.login_name != want_name:
                V.append(('C09/login-start-name',
                          {'got': app.login_name, 'want': want_name}))
            if app.status_requests:
                V.append(('C09/status-request-on-login-connection', None))
    if V:
        return
    errs = st['errs']
    if scenario['call'] == 'connect':
        ob()
        e = exp['error']
        if e is None:
            if errs:
                V.append(('C09/unexpected-error:%s' % type(errs[0]).__name__,
                          str(errs[0])[:160]))
                return
            ob()
            if len(st['exits']) != 1:
                V.append(('C09/exit-callback-count', len(st['exits'])))
            ob()
            if not apps[-1].reached_play:
                V.append(('C09/login-not-completed', None))
        else:
            if not errs:
                V.append(('C09/error-not-delivered', {'want': e[0]}))
                return
            got = errs[0]
            if e[0] == 'VersionMismatch':
                ob(4)
                _k, p, name, is_sup = e
                msg = str(got)
                if type(got).__name__ != 'VersionMismatch':
                    V.append(('C09/wrong-error-type:%s'
                              % type(got).__name__, msg[:160]))
                    return
                if getattr(got, 'server_protocol', None) != p or \
                        str(p) not in msg:
                    V.append(('C09/mismatch-does-not-name-protocol',
                              {'msg': msg, 'p': p}))
                if name is not None and (
                        name not in msg or
                        getattr(got, 'server_version', None) != name):
                    V.append(('C09/mismatch-does-not-name-version',
                              {'msg': msg, 'name': name}))
                says_allowed = 'supported, but not allowed' in msg
                says_unsup = 'not supported' in msg
                if is_sup and not says_allowed or \
                        not is_sup and (says_allowed or not says_unsup):
                    V.append(('C09/mismatch-wording',
                              {'msg': msg, 'supported': is_sup}))
            elif e[0] == 'ConnectionRefused':
                ob()
                res.probes['login-connect-refused'] = 1
                if not isinstance(got, ConnectionRefusedError):
                    V.append(('C09/refused-login-connect-misreported',
                              repr(got)[:160]))
            else:
                ob()
                if not isinstance(got, OSError) or \
                        'Invalid server status' not in str(got):
                    V.append(('C09/empty-status-not-rejected-as-invalid',
                              repr(got)[:160]))
            ob()
            if any(not a.fin_seen for a in apps):
                V.append(('C09/connection-left-open-after-error', None))
    else:
        # plain status query
        ob()
        mode = scenario['status']['mode']
        replied = mode == 'reply'
        hs, hp = scenario['handle_status'], scenario['handle_ping']
        app = apps[0]
        if not replied:
            # no documented fallback for a plain status query: an error
            if not errs:
                V.append(('C09/status-eof-not-reported', None))
            return
        obj = json.loads(scenario['status']['json'])
        ob(2)
        if hs == 'custom':
            if st['status_calls'] != [obj]:
                V.append(('C09/status-handler-calls',
                          {'n': len(st['status_calls'])}))
        elif hs == 'default':
            if st['stdout'].count(str(obj)) != 1:
                V.append(('C09/default-status-handler-output',
                          st['stdout'][:120]))
        else:
            if st['status_calls'] or str(obj) in st['stdout']:
                V.append(('C09/disabled-status-handler-ran', None))
        ob(2)
        if hp == 'off':
            if app.pings:
                V.append(('C09/ping-sent-when-disabled', len(app.pings)))
            if st['ping_calls'] or 'Ping:' in st['stdout']:
                V.append(('C09/ping-handler-ran-when-disabled', None))
        else:
            if len(app.pings) != 1:
                V.append(('C09/ping-frame-count', len(app.pings)))
            elapsed_ms = sim.now // 1000 + 1
            if hp == 'custom':
                lat = st['ping_calls']
                if len(lat) != 1:
                    V.append(('C09/ping-handler-calls', len(lat)))
                elif not (0 <= lat[0] <= elapsed_ms):
                    V.append(('C09/latency-out-of-range',
                              {'latency': lat[0], 'elapsed_ms': elapsed_ms}))
                elif lat[0] < scenario['status']['pong_delay_us'] // 1000:
                    V.append(('C09/latency-below-server-delay',
                              {'latency': lat[0]}))
            else:
                if st['stdout'].count('Ping: ') != 1:
                    V.append(('C09/default-ping-handler-output',
                              st['stdout'][:120]))
        ob()
        if errs:
            V.append(('C09/unexpected-error:%s' % type(errs[0]).__name__,
                      str(errs[0])[:160]))
            return
        ob(2)
        if not app.fin_seen:
            V.append(('C09/status-connection-not-closed', None))
        if len(st['exits']) != 1:
            V.append(('C09/exit-callback-count', len(st['exits'])))
    ob()
    if not st.get('quiet'):
        V.append(('C09/networking-thread-alive', None))
    if sim.stats.get('join-wait'):
        res.probes['successor-waited-in-join'] = 1


def check_twin(scenario, w, st, res):
    V = res.violations
    calls = st.get('twin_calls') or [None, None]
    res.obligations += 6
    if any(c is None for c in calls):
        V.append(('C09/twin:call-did-not-return', None))
        return
    accepted = [i for i, c in enumerate(calls) if c.ok]
    for i, c in enumerate(calls):
        if not c.ok and type(c.exc).__name__ != 'InvalidState':
            V.append(('C09/twin:call-raised:%s' % type(c.exc).__name__,
                      str(c.exc)[:100]))
            return
    if not accepted:
        V.append(('C09/twin:both-refused', None))
        return
    obj = json.loads(scenario['status']['json'])
    apps = w.server.apps
    if len(apps) != len(accepted):
        V.append(('C09/twin:tcp-connection-count',
                  {'connections': len(apps), 'accepted': len(accepted)}))
        return
    for i in (0, 1):
        n = len(st['twin_status'][i])
        if i in accepted and st['twin_status'][i] != [obj]:
            V.append(('C09/twin:accepted-query-handler-calls', {'calls': n}))
            return
        if i not in accepted and (n or st['twin_ping'][i]):
            V.append(('C09/twin:refused-query-handler-called', {'calls': n}))
            return
    if st['errs']:
        V.append(('C09/twin:error-reported:%s'
                  % type(st['errs'][0]).__name__, str(st['errs'][0])[:120]))
        return
    if any(not a.fin_seen for a in apps) or not st.get('quiet'):
        V.append(('C09/twin:connection-left-open', None))
    if len(st['exits']) != len(accepted):
        V.append(('C09/twin:exit-callback-count',
                  {'exits': len(st['exits']), 'accepted': len(accepted)}))
    res.probes['two-threads-query-at-once'] = 1
    if len(accepted) == 1:
        res.probes['twin-query-refused'] = 1


def shrink_scenario(sc):
    if sc.get('refuse_login'):
        c = copy.deepcopy(sc)
        c.pop('refuse_login')
        c['net']['refuse'] = []
        yield c
    if sc.get('prior'):
        c = copy.deepcopy(sc)
        n = c.pop('prior')['conns']
        c['server']['conns'] = c['server']['conns'][n:]
        yield c
    if sc['allowed'] is not None and len(sc['allowed']) > 2:
        for j in range(len(sc['allowed'])):
            c = copy.deepcopy(sc)
            del c['allowed'][j]
            yield c
    if sc['initial'] is not None:
        c = copy.deepcopy(sc)
        c['initial'] = None
        yield c
    if sc['auth']:
        c = copy.deepcopy(sc)
        c['auth'] = False
        yield c
    for k in ('segment', 'short_read'):
        if sc['net'].get(k):
            c = copy.deepcopy(sc)
            c['net'][k] = False
            yield c
    if sc['status'].get('pong_delay_us'):
        c = copy.deepcopy(sc)
        c['status']['pong_delay_us'] = 0
        for cn in c['server']['conns']:
            if cn.get('status', {}).get('pong_delay_us'):
                cn['status']['pong_delay_us'] = 0
        yield c
    if sc['sched']['granularity'] != 'io':
        c = copy.deepcopy(sc)
        c['sched']['granularity'] = 'io'
        yield c


def evidence(tier, seed, m, d):
    return common.base_evidence(
        sys.modules[__name__], tier, seed, m, d,
        rule='seeded configurations: allowed versions (all / singleton / '
             'pair / prefix / few / containing an invalid entry; names or '
             'numbers) x default version (none / valid / invalid) x call '
             '(connect, status with 3x3 handler modes; with a single allowed version half the runs follow an '
             'earlier compressed session on the same object) x server status '
             'behaviour (allowed, supported-not-allowed, known-unsupported, '
             'unknown protocol numbers; no version; no protocol; {}; FIN on '
             'accept; FIN after request) x user name / authenticated profile; '
             'thorough additionally sweeps every supported protocol as the '
             'server reply; outcome compared with a pure reference function; '
             'evaluations = oracle obligations; non-trivial = construction '
             'succeeded and a conversation took place; distinct = distinct '
             'run digests',
        extra_assumptions=['the supported/known version tables and their '
                           'order are read from pyCraft (C08 not decided '
                           'here)'])

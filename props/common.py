"""Shared helpers for property modules."""
import json

from sim.runner import RunResult
from sim.world import World
from sim.tape import Policy
from sim.sched import HarnessError, DONE

BOUNDARY_PROTOCOLS = [4, 5, 47, 107, 108, 210, 315, 335, 338, 339, 340, 384,
                      385, 388, 393, 404, 477, 498, 573, 578, 706, 707,
                      717, 718, 735, 736, 751, 754, 755, 756, 757]

REAL = ['minecraft.networking.connection (Connection, NetworkingThread, '
        'reactors)', 'minecraft.networking.packets.* (framing, zlib, codecs '
        'touched)', 'minecraft.networking.encryption', 'zlib', 'cryptography']
STUB = ['thread scheduling (real OS threads, baton passing)',
        'every reference a minecraft.* module holds to socket / select '
        '(incl. poll) / time / timeit / threading (RLock, Lock, Event, '
        'Condition, Semaphore, Timer, Thread subclasses): sim/stdlib.py',
        'TCP transport (Linux semantics, selftest/socket_conformance.py)',
        'clock (virtual, discrete-event)',
        'os.urandom as seen by encryption.py',
        'Minecraft server (independent implementation, sim/server.py)',
        'Yggdrasil / session service (scripted, behind a real '
        'requests.Session)']


def pick_proto(rng, supported, boundary_weight=0.6):
    if rng.random() < boundary_weight:
        cands = [p for p in BOUNDARY_PROTOCOLS if p in supported]
        return rng.choice(cands)
    return rng.choice(supported)


def supported():
    """Supported protocols minus those whose id tables collide (C06)."""
    from sim.ids import usable_protocols
    return usable_protocols()


def result_from_world(w, res=None):
    res = res or RunResult()
    sim = w.sim
    if getattr(sim, 'harness_fault', None):
        raise HarnessError(sim.harness_fault)
    if sim.end_state == 'step-cap' and (
            w.last_api_step > sim.max_steps // 2 or
            sim.last_progress_step > sim.max_steps * 3 // 4):
        # API calls still got through in the second half of the step budget,
        # or bytes/frames/threads still moved in its last quarter: the run
        # is slow (many polling threads, bytecode granularity, one-byte
        # reads of large frames), not stuck - no verdict
        sim.end_state = 'inconclusive'
    res.digest = sim.digest
    res.sched_sig = sim.sched_sig
    res.steps = sim.steps
    res.vtime_us = sim.now
    res.end_state = sim.end_state
    for k, v in sim.stats.items():
        if k.startswith('fault.'):
            res.faults[k[6:]] = res.faults.get(k[6:], 0) + v
        else:
            res.probes[k] = res.probes.get(k, 0) + v
    if sim.stats.get('preempt'):
        res.faults['preempt'] = sim.stats['preempt']
    if sim.stats.get('event-first'):
        res.faults['timer-first'] = sim.stats['event-first']
    for sig, detail, seq in sim.violations:
        res.violations.append((sig, detail))
    if sim.end_state == 'real-hang':
        # decided here for every property: a networking (or calling) thread
        # stuck in an endless loop inside the library
        res.violations.append(('%s/real-hang:%s' % (w.prop_id, sim.end_detail),
                               {'where': sim.end_detail}))
        res.poisoned = True
    return res


def base_evidence(prop, tier, seed, m, d, rule, extra_assumptions=()):
    return {
        'property_id': prop.ID,
        'tier': tier,
        'seed': seed,
        'level': prop.LEVEL,
        'coverage': {
            'evaluations': m['obligations'],
            'distinct_nontrivial': d['distinct_nontrivial'],
            'rule': rule,
            'samples': d['samples'] or [{'note': 'no non-trivial sample'}],
            'distinct_run_digests': d['distinct_digests'],
            'distinct_schedule_signatures':
                d['distinct_schedule_signatures'],
            'distinct_state_signatures': d['distinct_state_signatures'],
            'measures': {
                'distinct_run_digests': 'runs whose 64-bit digest (every '
                'I/O/API event with its scheduler step index, every context '
                'switch with its step index) differs',
                'distinct_schedule_signatures': 'distinct hashes of the '
                'sequence of context switches (from-thread, to-thread, step '
                'mod 256)',
                'distinct_state_signatures': 'distinct property-specific '
                'abstract states/configurations reached (see the property '
                'module: e.g. framing mode x cipher x variant, call-outcome '
                'sequence, conversation x cut offset)'},
            'scenario_variants': list(getattr(prop, 'VARIANTS', ())),
            'real_components': REAL,
            'stub_components': STUB,
        },
        'assumptions': [
            'packet ids per protocol version and the version order are taken '
            'from pyCraft (C06/C07/C08 are not decided here); protocol '
            'versions whose id tables collide (317, 336, 337, 343, 344, '
            '389-392 at the pinned commit; recomputed on every run) are '
            'excluded from sampling',
            'the socket model covers what Linux blocking TCP shows to '
            'pyCraft\'s call set (selftest/socket_conformance.py)',
            'pre-emption granularity is a source line (or bytecode) of '
            'connection.py / packet.py / encryption.py; C-level operations '
            'are atomic as under the GIL',
        ] + list(extra_assumptions),
    }


def networking_quiet(conn):
    return conn.networking_thread is None and \
        conn.new_networking_thread is None


def all_net_done(sim):
    return all(t.state == DONE for t in sim.threads if t.kind == 'net')

"""C01 - framed packet stream survives threshold, cipher and read segmentation."""
import copy

from sim.world import World
from sim.tape import Tape, Policy, make_rng
from sim.ids import ids_for
from sim import wire
from . import common

ID = 'C01'
LEVEL = 'exploration'
# scenario variants and fault kinds mixed into the seeded part (reported in
# the evidence; DESIGN 14.6 says where each came from)
VARIANTS = [
    "cut sweep with pauses of 1 s / 31 s / 400 s",
    "second session on the same object (user or exception handler)",
    "negative threshold put in force through options",
    "re-entrant forced write from an early outgoing listener",
    "all packets of a session written forced",
    "send() stalls at chosen send indices (slow peer)",
    "protocol 47 play-state Set Compression in mid-stream",
    "350..3000 packets queued in one go",
    "VarInt-boundary and threshold+-1 sizes",
    "very compressible packets (3000..70000 equal bytes)",
    "second session abandoned at once (connect(); disconnect() during the hand-over)"
]
RUNS = {'quick': 9000, 'thorough': 300000}
WALL_CAP = {'quick': 200, 'thorough': 3300}

SWEEP_STREAMS = 6          # short streams whose every cut position is run
_sweep_cache = {}
UUID0 = '00112233445566778899aabbccddeeff'


def plugin_item_for_len(ids, L, ch='a:b'):
    """clientbound plugin message whose payload (id + body) is L bytes."""
    head = len(wire.varint(ids['cb.play.plugin'])) + len(wire.string(ch))
    n = max(L - head, 0)
    return ['plugin', ch, bytes((i * 37 + L) & 0xFF for i in range(n)).hex()]


def gen_items(rng, ids, threshold, n_items, big):
    known = set(ids['cb.play.known'])
    items = []
    T = threshold if threshold is not None and 0 <= threshold < 2**20 else 64
    for _ in range(n_items):
        k = rng.random()
        if k < 0.3:
            L = rng.choice([T - 1, T, T + 1, T + 2, 3, 8, 40, 200,
                            126, 127, 128, 129, 130] +
                           ([1500, 4000, 8000, 16382, 16383, 16384, 16385]
                            if big else []))
            items.append(plugin_item_for_len(ids, max(L, 6)))
        elif k < 0.5:
            n = rng.choice([0, 1, 5, T, 100] + ([3000] if big else []))
            text = '{"text":"%s"}' % ('x' * n)
            items.append(['chat', text, rng.choice([0, 1, 2]), UUID0])
        elif k < 0.7:
            # unknown ids, also ones whose VarInt takes two or three bytes
            uid = rng.choice([i for i in range(0x00, 0x7F)
                              if i not in known]) if rng.random() < 0.7 \
                else rng.choice([0x7F, 0x80, 0xC8, 0x3FFF, 0x4000, 0x1FFFFF])
            n = rng.choice([0, 1, 2, T - 1 if T > 0 else 0, T, T + 1, 77] +
                           ([2500] if big else []))
            items.append(['unknown', uid,
                          bytes(rng.randrange(256) for _ in range(n)).hex()])
        elif k < 0.85:
            items.append(['time', rng.randrange(2**40), rng.randrange(24000)])
        else:
            items.append(['ka', rng.choice([0, 1, 127, 128, 2**31 - 1,
                                            rng.randrange(2**31)])])
    return items


def gen_writes(rng, ids, threshold, n):
    T = threshold if threshold is not None and 0 <= threshold < 2**20 else 64
    out = []
    for i in range(n):
        k = rng.random()
        if k < 0.5:
            L = rng.choice([T - 1, T, T + 1, 0, 1, 30, 300, 2000,
                            # frame-length / data-length VarInt boundaries
                            126, 127, 128, 129, 130, 16382, 16383, 16384,
                            16385, 16386])
            head = len(wire.varint(ids['sb.play.plugin'])) + \
                len(wire.string('c:d'))
            n_data = max(L - head, 0)
            out.append(['plugin', 'c:d',
                        bytes((j * 11 + i) & 0xFF
                              for j in range(n_data)).hex()])
        elif k < 0.8:
            out.append(['chat', 'm' * rng.choice([0, 1, T, 50, 255])])
        else:
            out.append(['custom', 0x7A, rng.randrange(-2**31, 2**31),
                        's' * rng.choice([0, 3, T]),
                        bytes(rng.randrange(256)
                              for _ in range(rng.choice([0, 2, T]))).hex()])
        if rng.random() < 0.08:
            # a forced write that fails while it is being serialised (the
            # caller gets the exception); later packets must be unaffected
            out.append(['bad', rng.choice(['range', 'attr'])])
    return out


def base_scenario(rng, proto=None, small=False):
    sup = common.supported()
    proto = proto or common.pick_proto(rng, sup)
    ids = ids_for(proto)
    threshold = rng.choice([None, -1, -2, 0, 1, 2, 16, 64, 127, 128, 256, 1024])
    cipher = rng.random() < 0.5
    login = []
    if threshold is not None and rng.random() < 0.5:
        login.append(['compress', threshold])
    if cipher:
        login.append(['encrypt', {'bits': 1024, 'token_hex': 'feedbeef',
                                  'server_id': '-'}])
    if threshold is not None and not any(s[0] == 'compress' for s in login):
        login.append(['compress', threshold])
    login.append(['success'])
    n_items = rng.randint(1, 5) if small else rng.randint(1, 25)
    items = gen_items(rng, ids, threshold, n_items, big=not small)
    writes = gen_writes(rng, ids, threshold,
                        rng.randint(0, 3) if small else rng.randint(0, 12))
    if not small and rng.random() < 0.04:
        # a long run of small packets queued in one go (more than any write
        # batch, more than a thousand)
        writes = [['chat', 'b%d' % i]
                  for i in range(rng.choice([350, 1100, 1500, 3000]))]
    reentrant = None
    real = [i for i, wr in enumerate(writes) if wr[0] != 'bad']
    if not small and 2 <= len(real) <= 12 and rng.random() < 0.12:
        # an early outgoing listener answers one of the queued packets with
        # a forced write of its own while that packet is being written
        # (re-entrant use of the write lock, which the library supports)
        reentrant = rng.choice(real)
    # all of a session's packets may be written at once (forced) by the
    # user thread instead of queued; and a send() may block for a while
    # (the peer reads slowly), keeping its caller inside a frame
    force_all = rng.random() < 0.25
    stalls = {}
    if rng.random() < 0.3:
        for _ in range(rng.choice([1, 2, 3])):
            stalls[str(rng.randrange(4, 40))] = rng.choice(
                [2000, 80000, 400000, 3000000])
    return {
        'proto': proto, 'threshold': threshold, 'cipher': cipher,
        'items': items, 'writes': writes, 'reentrant': reentrant,
        'force_all': force_all,
        'server': {'conns': [{'login': login, 'play': items}]},
        'net': {'latency_us': 200, 'send_stalls': stalls},
        'sched': {'granularity': 'io', 'max_steps': 400000},
        'rand_seed': rng.randrange(2**32),
    }


def sweep_plan(seed):
    """(stream index, cut position) for SWEEP_STREAMS short streams."""
    if seed in _sweep_cache:
        return _sweep_cache[seed]
    cases = []
    for s in range(SWEEP_STREAMS):
        rng = make_rng('sweep', ID, seed, s)
        sc = base_scenario(rng, small=True)
        res, w = _execute(sc, Tape(replay=[]), True)
        if res.violations:
            # surfaced by the ordinary run of this scenario as well
            n = 0
        else:
            n = w.server.apps[0].conn.s2c_sent
        for k in range(1, min(n, 2048)):
            cases.append((s, k))
    _sweep_cache[seed] = cases
    return cases


def total(tier, seed):
    return len(sweep_plan(seed)) + RUNS[tier]


def scenario_for(seed, index, tier):
    sweep = sweep_plan(seed)
    if index < len(sweep):
        s, k = sweep[index]
        sc = base_scenario(make_rng('sweep', ID, seed, s), small=True)
        sc['net']['cut_plan'] = {'0': [k]}
        # how long the rest of the stream takes to arrive varies too: a
        # second, or longer than any plausible I/O timeout
        sc['net']['cut_pause_us'] = [1000000, 31000000, 1000000,
                                     400000000][(k + s) % 4]
        sc['variant'] = 'cut-sweep'
        sc['cut'] = k
        return sc
    rng = make_rng('scenario', ID, seed, index)
    sc = base_scenario(rng, small=rng.random() < 0.3)
    if rng.random() < 0.06:
        # a NEGATIVE threshold in force: it cannot arrive over the wire (the
        # set-compression VarInt is read unsigned), so it is put in force
        # through the connection's options once the play state is reached;
        # the peer switches to the data-length format (never compressing)
        # at the same quiescent moment
        sc = base_scenario(rng, small=rng.random() < 0.5)
        sc['threshold'] = rng.choice([-1, -1, -2, -100])
        sc['poke_negative'] = True
        login = [s_ for s_ in sc['server']['conns'][0]['login']
                 if s_[0] != 'compress']
        ids_ = ids_for(sc['proto'])
        sc['items'] = gen_items(rng, ids_, 64, len(sc['items']),
                                big=False)
        sc['server']['conns'][0] = {'login': login,
                                    'play': [['await']] + sc['items']}
        sc['variant'] = 'negative-threshold-in-force'
        return sc
    if rng.random() < 0.05 and 47 in common.supported():
        # protocol 47 also knows a play-state Set Compression: the framing
        # changes in mid-stream, after packets that were still in the old
        # format (no keep-alives before it: their answers would race with
        # the switch - a weakness of the protocol, not of the client)
        sc = base_scenario(rng, proto=47, small=rng.random() < 0.5)
        T = sc['threshold']
        if T is not None and T >= 0:
            items = sc['items']
            cut = rng.randint(0, len(items))
            before = [it for it in items[:cut] if it[0] != 'ka']
            sc['items'] = before + [['compress', T]] + items[cut:]
            sc['play_switch'] = True
            login = [s_ for s_ in sc['server']['conns'][0]['login']
                     if s_[0] != 'compress']
            sc['server']['conns'][0] = {'login': login, 'play': sc['items']}
            sc['variant'] = 'play-state-compression-switch'
            if rng.random() < 0.5:
                sc['net']['segment'] = True
                sc['net']['short_read'] = True
                sc['net']['max_seg'] = rng.choice([1, 7, 64, 1000])
            return sc
        sc = base_scenario(rng, small=rng.random() < 0.3)
    if rng.random() < 0.2:
        # the same Connection is used for a second session with its own
        # framing mode: nothing of the first may leak into it
        sc['second'] = base_scenario(rng, proto=sc['proto'], small=True)
        sc['server']['conns'].append(sc['second']['server']['conns'][0])
        # the second session starts after a user disconnect(), or from the
        # exception handler after the server dropped the first link (no
        # disconnect() in between)
        sc['second_via'] = rng.choice(['user', 'handler'])
    if not sc.get('second') and rng.random() < 0.1:
        # another Connection object lives in the same process (encrypted
        # like this one) and writes while this one does: the two streams
        # must not influence each other
        steps = [s_ for s_ in sc['server']['conns'][0]['login']
                 if s_[0] == 'encrypt'] + [['success']]
        sc['bystander'] = {'n': rng.choice([3, 10, 40]),
                           'gap_us': rng.choice([0, 200, 5000]),
                           'forced': rng.random() < 0.5}
        sc['server']['conns'].append({'login': copy.deepcopy(steps),
                                      'play': []})
    elif not sc.get('second') and rng.random() < 0.1:
        # the user does not wait for anything: it writes its packets and
        # calls (a non-immediate) disconnect() straight away - everything it
        # wrote still has to arrive, whole and in order
        sc['leave_at_once'] = True
    v = rng.random()
    if v < 0.25:
        sc['net']['one_byte_reads'] = True
        sc['variant'] = 'one-byte-reads'
        sc['sched']['max_steps'] = 4000000
    elif v < 0.75:
        sc['net']['segment'] = True
        sc['net']['short_read'] = True
        sc['net']['max_seg'] = rng.choice([1, 2, 7, 64, 1000])
        sc['variant'] = 'random-partition'
        if rng.random() < 0.3:
            sc['sched']['granularity'] = 'line'
    elif v < 0.9:
        # a few explicit cuts with long pauses
        sc['net']['cut_plan'] = {'0': sorted(rng.sample(range(1, 400), 3))}
        sc['net']['cut_pause_us'] = rng.choice([1000000, 12000000, 61000000,
                                                900000000])
        sc['variant'] = 'three-cuts'
    else:
        sc['variant'] = 'whole-frames'
    if sc.get('second') and sc.get('second_via') == 'user' and \
            make_rng('abandon', ID, seed, index).random() < 0.3:
        # change of mind: the second connect() is followed at once by an
        # ordinary disconnect() - while the first session's networking
        # thread may still be winding down.  What connect() queued (the
        # handshake and the login start) is still sent before the close.
        sc['second']['abandon'] = True
    rz = make_rng('compressible', ID, seed, index)
    T_ = sc['threshold']
    if T_ is not None and T_ >= 0 and not sc.get('second') and \
            sc['variant'] in ('whole-frames', 'random-partition') and \
            sc['net'].get('max_seg', 1000) >= 64 and rz.random() < 0.25:
        # very compressible packets (deflate reaches about 1000:1): long
        # runs of one byte, as in empty chunk sections or padded plugin data
        known_ = set(ids_for(sc['proto'])['cb.play.known'])
        for _ in range(rz.choice([1, 2])):
            uid = rz.choice([i for i in range(0x7F) if i not in known_])
            body = bytes([rz.choice([0, 0, 0x78, 0xFF])]) * \
                rz.choice([3000, 6000, 20000, 70000])
            sc['items'].insert(rz.randrange(len(sc['items']) + 1),
                               ['unknown', uid, body.hex()])
        sc['compressible'] = True
    if sc.get('bystander') and (sc['net'].get('cut_plan') or
                                sc['net'].get('one_byte_reads')):
        # (not next to minute-long stalls or one-byte reads of this
        # session: the second networking thread's polling would eat the
        # step budget)
        sc.pop('bystander')
        sc['server']['conns'].pop()
    return sc


def policy(rng, scenario):
    if scenario.get('variant') == 'random-partition':
        return Policy(p_sched=rng.choice([0, 0.01, 0.05]),
                      p_event=rng.choice([0, 0.05, 0.3]),
                      p_short=rng.choice([0.1, 0.5, 0.9]),
                      p_seg=rng.choice([0.1, 0.5, 0.9]), name='partition')
    return Policy(p_event=rng.choice([0, 0.1]), name='plain')


def expected_incoming(ids, items):
    later = ids['later']
    out = []
    for it in items:
        op = it[0]
        if op == 'plugin':
            out.append((ids['cb.play.plugin'], 'plugin',
                        (it[1], it[2])))
        elif op == 'chat':
            f = (it[1], it[2]) + ((it[3],) if later[718] else ())
            out.append((ids['cb.play.chat'], 'chat', f))
        elif op == 'unknown':
            out.append((it[1], 'generic', ()))
        elif op == 'time':
            out.append((ids['cb.play.time'], 'time', (it[1], it[2])))
        elif op == 'ka':
            out.append((ids['cb.play.keep_alive'], 'ka', (it[1],)))
        elif op == 'compress':
            out.append((ids['cb.play.set_compression'], 'set compression',
                        ()))
    return out


def expected_outgoing(ids, writes):
    out = []
    for wr in writes:
        if wr[0] == 'plugin':
            out.append((ids['sb.play.plugin'],
                        wire.string(wr[1]) + bytes.fromhex(wr[2])))
        elif wr[0] == 'chat':
            out.append((ids['sb.play.chat'], wire.string(wr[1])))
        elif wr[0] == 'custom':
            import struct
            out.append((wr[1], struct.pack('>i', wr[2]) + wire.string(wr[3])
                        + wire.bytearr(bytes.fromhex(wr[4]))))
        # 'bad' writes raise in the caller and put nothing on the wire
    return out


def _execute(scenario, tape, want_world=False):
    w = World(scenario, tape)
    sessions = [scenario] + ([scenario['second']]
                             if scenario.get('second') else [])
    ids = ids_for(scenario['proto'])
    S = []
    for sc in sessions:
        S.append({'log': [], 'errs': [], 'late_errs': [], 'in_play': False,
                  'exp_in': expected_incoming(ids, sc['items']),
                  'exp_out': expected_outgoing(ids, sc['writes']),
                  'sc': sc})
    st = {'cur': 0, 'S': S}

    def build(w):
        from minecraft.networking.connection import Connection
        from minecraft.networking.packets import Packet, serverbound
        from minecraft.networking import types as T

        def cur():
            return S[st['cur']]

        def on_exc(e, i):
            c = cur()
            if scenario.get('second_via') == 'handler' and st['cur'] == 0 \
                    and c.get('drop_requested') and isinstance(e, EOFError):
                st['cur'] = 1
                st['handler_reconnect'] = True
                conn.connect()
                return
            (c['late_errs'] if c.get('disc_started') else c['errs']).append(e)
        conn = Connection('sim.example', 25565, username='framer',
                          allowed_versions=[scenario['proto']],
                          handle_exception=on_exc)

        class Custom(Packet):
            id = 0x7A
            packet_name = 'custom'
            definition = [{'a': T.Integer}, {'b': T.String},
                          {'c': T.VarIntPrefixedByteArray}]

        def on_packet(p):
            c = cur()
            name = p.packet_name
            if name == 'login success':
                c['in_play'] = True
                return
            if not c['in_play']:
                return
            if name == 'plugin message' or (
                    type(p).__name__ == 'PluginMessagePacket'):
                rec = (p.id, 'plugin', (p.channel, bytes(p.data).hex()))
            elif name == 'chat message':
                f = (p.json_data, p.position)
                if hasattr(p, 'sender') and ids['later'][718]:
                    f += (str(p.sender).replace('-', ''),)
                rec = (p.id, 'chat', f)
            elif name == 'time update':
                rec = (p.id, 'time', (p.world_age, p.time_of_day))
            elif name == 'keep alive':
                rec = (p.id, 'ka', (p.keep_alive_id,))
            elif type(p) is Packet:
                rec = (p.id, 'generic', ())
            else:
                rec = (p.id, name, ())
            c['log'].append(rec)
        conn.register_packet_listener(on_packet, Packet, early=True)
        by = scenario.get('bystander')
        if by:
            st['b_errs'] = []
            conn2 = Connection('sim.example', 25565, username='bystander',
                               allowed_versions=[scenario['proto']],
                               handle_exception=lambda e, i: (
                                   [] if st.get('b_closing') else
                                   st['b_errs']).append(e))
            conn2.register_packet_listener(
                lambda p: st.__setitem__('b_in_play', True)
                if p.packet_name == 'login success' else None, Packet)

            def bystander():
                w.wait_until(lambda: S[0]['in_play'] or S[0]['errs'],
                             30000000)
                r = w.api('b-connect', conn2.connect)
                if not r.ok:
                    st['b_errs'].append(r.exc)
                    return
                w.wait_until(lambda: st.get('b_in_play') or st['b_errs'],
                             30000000)
                for i in range(by['n']):
                    if st['b_errs']:
                        break
                    w.api('b-write', conn2.write_packet,
                          serverbound.play.PluginMessagePacket(
                              channel='by:%d' % i,
                              data=bytes((i * 7 + j) & 0xFF
                                         for j in range(i % 23))),
                          force=by['forced'])
                    if by['gap_us']:
                        w.sleep(by['gap_us'])
                w.wait_until(lambda: S[0].get('disc_started') or
                             S[0]['errs'], 60000000)
                w.wait_until(lambda: len(w.server.apps) > 1 and
                             w.server.apps[1].play_frames >= by['n'],
                             budget=20000)
                st['b_closing'] = True
                w.api('b-disconnect', conn2.disconnect)
            w.sim.spawn(bystander, 'user1')

        def on_outgoing(p):
            c = cur()
            if c.get('target') is p:
                c['urgent_issued'] = True
                conn.write_packet(serverbound.play.ChatPacket(
                    message='urgent!'), force=True)
        if any(sc_.get('reentrant') is not None for sc_ in sessions):
            conn.register_packet_listener(on_outgoing, Packet, early=True,
                                          outgoing=True)

        def user():
            via_handler = scenario.get('second_via') == 'handler'
            for k, c in enumerate(S):
                sc = c['sc']
                if k == 0 or not via_handler:
                    st['cur'] = k
                    c['connect'] = w.api('connect', conn.connect)
                if sc.get('abandon'):
                    c['disc_started'] = True
                    c['disc'] = w.api('disconnect', conn.disconnect)
                    c['quiet'] = w.wait_until(
                        lambda: common.all_net_done(w.sim), 10000000)
                    continue
                w.wait_until(lambda: c['in_play'] or c['errs'] or
                             S[0]['errs'], 30000000)
                if sc.get('poke_negative') and not c['errs']:
                    with conn._write_lock:
                        conn.options.compression_threshold = sc['threshold']
                        conn.options.compression_enabled = True
                    app0 = w.server.apps[k]
                    w.sim.after(0, lambda: w.server.release(
                        app0, sc['threshold']), 'release')
                if sc.get('play_switch') and not c['errs']:
                    # our own packets only once the switch has been seen
                    w.wait_until(lambda: c['errs'] or
                                 conn.options.compression_enabled, 30000000)
                if not c['errs']:
                    for wi, wr in enumerate(sc['writes']):
                        if wr[0] == 'plugin':
                            pkt = serverbound.play.PluginMessagePacket(
                                channel=wr[1], data=bytes.fromhex(wr[2]))
                        elif wr[0] == 'chat':
                            pkt = serverbound.play.ChatPacket(message=wr[1])
                        elif wr[0] == 'bad':
                            pkt = Custom(a=2**40, b='x', c=b'y') \
                                if wr[1] == 'range' else Custom(a=1, b='only')
                            r = w.api('write-bad', conn.write_packet, pkt,
                                      force=True)
                            c.setdefault('bad_results', []).append(r.ok)
                            continue
                        else:
                            pkt = Custom(a=wr[2], b=wr[3],
                                         c=bytes.fromhex(wr[4]))
                        if sc.get('reentrant') == wi:
                            c['target'] = pkt
                        w.api('write', conn.write_packet, pkt,
                              force=bool(sc.get('force_all')))
                    n_ka = sum(1 for it in sc['items'] if it[0] == 'ka')
                    want_frames = len(c['exp_out']) + n_ka + (
                        1 if sc.get('reentrant') is not None else 0)

                    def settled():
                        app = w.server.apps[k] if len(w.server.apps) > k \
                            else None
                        return c['errs'] or (
                            len(c['log']) >= len(c['exp_in']) and
                            app is not None and
                            app.play_frames >= want_frames)
                    if not sc.get('leave_at_once'):
                        c['settled'] = w.wait_until(settled, 60000000)
                if via_handler and k == 0 and len(S) > 1 and \
                        not c['errs']:
                    # the server drops the link; the handler reconnects
                    c['drop_requested'] = True
                    tcp = w.server.apps[0].conn
                    w.sim.after(0, tcp.server_close, 'drop')
                    w.wait_until(lambda: st['cur'] == 1 or c['errs'],
                                 30000000)
                    c['quiet'] = True
                    continue
                c['disc_started'] = True
                c['disc'] = w.api('disconnect', conn.disconnect)
                if k + 1 < len(S) and S[k + 1]['sc'].get('abandon'):
                    # (the next connect() comes at once: the old thread is
                    # probably still there)
                    c['quiet'] = True
                    continue
                c['quiet'] = w.wait_until(
                    lambda: common.all_net_done(w.sim), 10000000)
        w.sim.spawn(user, 'user0')

    w.run(build)
    res = common.result_from_world(w)
    w.harness_state = st
    for k, c in enumerate(S):
        if k < len(w.server.apps) or k == 0:
            check(c['sc'], w, c, res, c['exp_in'], c['exp_out'], ids, k,
                  scenario)
        if res.violations:
            if k:
                res.violations[:] = [(sig + ':second-session', d)
                                     for sig, d in res.violations]
            break
    if len(S) > 1 and not res.violations:
        res.probes['second-session-on-same-connection'] = 1
        if st.get('handler_reconnect'):
            res.probes['second-session-from-exception-handler'] = 1
    if want_world:
        return res, w
    return res


def execute(scenario, tape):
    return _execute(scenario, tape)


def check(scenario, w, st, res, exp_in, exp_out, ids, k=0, top=None):
    top = top or scenario
    sim = w.sim
    V = res.violations

    def ob(n=1):
        res.obligations += n
    res.summary = {'proto': scenario['proto'],
                   'threshold': scenario['threshold'],
                   'cipher': scenario['cipher'],
                   'variant': top.get('variant'),
                   'cut': top.get('cut'),
                   'sessions': 2 if top.get('second') else 1,
                   'items': [(it[0], len(it[2]) // 2 if it[0] in
                              ('plugin', 'unknown') else None)
                             for it in scenario['items']][:12],
                   'writes': [(x[0], len(x[2]) // 2 if x[0] == 'plugin'
                               else None) for x in scenario['writes']][:12],
                   'failed_forced_writes': sum(
                       1 for x in scenario['writes'] if x[0] == 'bad'),
                   'end': sim.end_state}
    res.nontrivial = bool(res.faults.get('segment') or
                          res.faults.get('short-read') or
                          res.faults.get('cut-pause'))
    res.state_sigs = list(res.state_sigs or []) + [
        (scenario['threshold'], scenario['cipher'], top.get('variant'), k)]
    ob()
    if sim.end_state == 'inconclusive':
        return
    if sim.end_state != 'done':
        V.append(('C01/%s' % sim.end_state, repr(sim.end_detail)))
        return
    if len(w.server.apps) <= k:
        V.append(('C01/no-connection', None))
        return
    app = w.server.apps[k]
    ob()
    if scenario.get('abandon'):
        # connect(); disconnect() at once: the two packets connect() queued
        # arrive whole, then the close
        res.probes['second-session-abandoned-at-once'] = 1
        c_ = st.get('connect')
        if c_ is not None and c_.ok and st.get('disc') is not None and \
                st['disc'].ok:
            ob(2)
            if app.errors:
                # (a thread of the first session that was still reacting to
                # a packet may have put an answer of its own into this
                # stream: C16's business, known finding 3)
                res.probes['abandoned-session-stream-not-parsed'] = 1
            elif app.handshake is None or app.login_name is None:
                V.append(('C01/queued-before-disconnect-lost',
                          {'handshake': app.handshake,
                           'login_name': app.login_name,
                           'server_errors': app.errors[:2]}))
            elif not app.fin_seen:
                V.append(('C01/not-closed', None))
        return
    if st['errs']:
        V.append(('C01/reader-error:%s' % type(st['errs'][0]).__name__,
                  str(st['errs'][0])[:200]))
        return
    # incoming: listener log equals what was sent - nothing lost, duplicated,
    # merged, split or re-ordered; unknown frames skipped whole
    ob(len(exp_in) + 1)
    got = [tuple(x) for x in st['log']]
    want = [(a, b, tuple(c)) for a, b, c in exp_in]
    if scenario.get('leave_at_once') and got == want[:len(got)]:
        # it left before everything had been sent to it
        want = got
        res.probes['left-without-waiting'] = 1
    if got != want:
        i = 0
        while i < min(len(got), len(want)) and got[i] == want[i]:
            i += 1
        kind = 'lost' if len(got) < len(want) and got == want[:len(got)] \
            else ('extra' if len(got) > len(want) and
                  got[:len(want)] == want else 'mismatch')
        V.append(('C01/incoming-%s' % kind,
                  {'at': i, 'got': repr(got[i:i + 2])[:300],
                   'want': repr(want[i:i + 2])[:300],
                   'n_got': len(got), 'n_want': len(want)}))
        return
    # invariant: the client never read past what was delivered
    ob()
    if app.conn.s2c_consumed > app.conn.s2c_delivered:
        V.append(('C01/read-past-delivered', None))
    # outgoing: the server's parse of the client stream
    ob()
    if app.errors:
        V.append(('C01/outgoing-torn-stream', app.errors[:3]))
        return
    ids_out = set(i for i, _b in exp_out)
    urgent = (ids['sb.play.chat'], wire.string('urgent!'))
    if scenario.get('reentrant') is not None:
        ids_out.add(urgent[0])
    seen = [(pid, bytes(body)) for seq, state, pid, body, meta in app.frames
            if state in ('play', 'paused') and pid in ids_out and not (
                pid == ids['sb.play.keep_alive'] and
                pid not in [i for i, _ in exp_out])]
    # keep-alive answers may share an id with a written packet class only if
    # tables collide; filter them by body when they do
    ob(len(exp_out) + 1)
    if scenario.get('reentrant') is not None:
        # the listener's own forced packet appears exactly once; where it
        # lands is not asserted, the order of the queued packets is
        n_urgent = seen.count(urgent)
        seen = [x for x in seen if x != urgent]
        ob()
        if n_urgent != 1:
            V.append(('C01/reentrant-forced-write-count', n_urgent))
            return
        res.probes['reentrant-forced-write'] = 1
    if seen != exp_out:
        ka_id = ids['sb.play.keep_alive']
        seen2 = [(p, b) for p, b in seen if not (p == ka_id and
                                                 (p, b) not in exp_out)]
        if seen2 != exp_out:
            i = 0
            while i < min(len(seen2), len(exp_out)) and \
                    seen2[i] == exp_out[i]:
                i += 1
            V.append(('C01/outgoing-mismatch',
                      {'at': i, 'n_got': len(seen2), 'n_want': len(exp_out),
                       'got': repr(seen2[i:i + 1])[:200],
                       'want': repr(exp_out[i:i + 1])[:200]}))
            return
    # framing discipline of written frames (acceptable to a vanilla decoder,
    # and compressed when above the announced threshold)
    T = scenario['threshold']
    for seq, state, pid, body, meta in app.frames:
        if meta.get('threshold') is None:
            continue
        t = meta['threshold']
        ob()
        if t >= 0:
            if meta['data_len'] and meta['payload_len'] < t:
                V.append(('C01/compressed-below-threshold',
                          {'payload': meta['payload_len'], 'T': t}))
                break
            if not meta['data_len'] and meta['payload_len'] > t:
                V.append(('C01/uncompressed-above-threshold',
                          {'payload': meta['payload_len'], 'T': t}))
                break
        # negative thresholds: pyCraft's writer treats only -1 as "never
        # compress"; the statement demands the round trip, not a particular
        # choice, so nothing is asserted about data_len here
    by = top.get('bystander') if k == 0 else None
    if by:
        ob(3)
        bst = w.harness_state
        if bst.get('b_errs'):
            V.append(('C01/bystander-error:%s'
                      % type(bst['b_errs'][0]).__name__,
                      str(bst['b_errs'][0])[:120]))
        elif len(w.server.apps) < 2:
            V.append(('C01/bystander-no-connection', None))
        else:
            app_b = w.server.apps[1]
            want_b = [(ids['sb.play.plugin'], wire.string('by:%d' % i) +
                       bytes((i * 7 + j) & 0xFF for j in range(i % 23)))
                      for i in range(by['n'])]
            got_b = [(pid, bytes(body)) for _s, stt, pid, body, _m in
                     app_b.frames if stt in ('play', 'paused')]
            if app_b.errors or got_b != want_b:
                V.append(('C01/bystander-stream-corrupted',
                          {'errors': app_b.errors[:2], 'n_got': len(got_b),
                           'n_want': len(want_b)}))
            else:
                res.probes['second-connection-writing-meanwhile'] = 1
    ob()
    if not st.get('quiet'):
        V.append(('C01/networking-thread-alive', None))
    if scenario['cipher'] and app.enc and res.faults.get('segment'):
        res.probes['segmented-ciphertext'] = 1
    if any(m.get('data_len') for _s, _st, _p, _b, m in app.frames):
        res.probes['client-compressed-a-frame'] = 1
    if st.get('bad_results') and not any(st['bad_results']):
        res.probes['failed-forced-write-in-sequence'] = 1


def shrink_scenario(sc):
    if sc.get('second'):
        c = copy.deepcopy(sc)
        del c['second']
        c['server']['conns'] = c['server']['conns'][:1]
        yield c
    for key in ('items', 'writes'):
        lst = sc[key]
        for j in range(len(lst)):
            c = copy.deepcopy(sc)
            del c[key][j]
            if key == 'items':
                c['server']['conns'][0]['play'] = c['items']
            yield c
    for j, it in enumerate(sc['items']):
        if it[0] in ('plugin', 'unknown') and len(it[2]) > 2:
            c = copy.deepcopy(sc)
            c['items'][j][2] = it[2][:len(it[2]) // 4 * 2]
            c['server']['conns'][0]['play'] = c['items']
            yield c
    for k in ('one_byte_reads', 'segment', 'short_read', 'cut_plan'):
        if sc['net'].get(k):
            c = copy.deepcopy(sc)
            c['net'].pop(k)
            yield c
    login = sc['server']['conns'][0]['login']
    if len(login) > 1:
        for j in range(len(login) - 1):
            c = copy.deepcopy(sc)
            step = c['server']['conns'][0]['login'].pop(j)
            if step[0] == 'compress':
                c['threshold'] = None
            else:
                c['cipher'] = False
            yield c


def evidence(tier, seed, m, d):
    import sys
    ev = common.base_evidence(
        sys.modules[__name__], tier, seed, m, d,
        rule='cases: (a) every cut position of %d short server streams '
             '(first k bytes readable, rest 1 s / 31 s / 400 s later), (b) seeded scenarios: '
             'threshold in {none,-1,0,1,2,16,64,256,1024} x cipher on/off x '
             'up to 25 clientbound frames (sizes around threshold-1/'
             'threshold/threshold+1, unknown ids, up to 8 KiB) and up to 12 '
             'written packets, delivered as whole frames / 1-byte reads / '
             'tape-chosen partitions / three long-paused cuts; 20%% of the seeded scenarios run a second session with its own framing mode on the same Connection; evaluations = '
             'oracle obligations (one per expected packet and direction); '
             'non-trivial = at least one segmentation, short read or cut '
             'pause fired; distinct = distinct run digests' % SWEEP_STREAMS)
    ev['coverage']['cut_sweep_cases'] = len(sweep_plan(seed))
    return ev
